#!/bin/bash
# tools/import_seeded.sh <series-letter> <ID> [<ID> ...]: copy a sub-agent's deliverables from its scratch worktree
# /tmp/sd/<ID>/_out into /verif/seeded/<ID>-<letter>/ (patch.diff, demo, meta.json skeleton) and confirm it with seedcheck.sh
cd "$(dirname "$0")/.."
letter=$1; shift
for id in "$@"; do
  src=/tmp/sd$( [ "$letter" = d ] && echo "" || echo $letter )/$id/_out
  name=$id-$letter
  [ -f $src/patch.diff ] || { echo "$name: no patch.diff"; continue; }
  mkdir -p seeded/$name
  cp $src/patch.diff seeded/$name/patch.diff
  cp $src/demo_*.py seeded/$name/
  python3 - "$id" "$name" "$src" <<'PY'
import json, sys
pid, name, src = sys.argv[1:]
try:
    notes = json.load(open(f'{src}/notes.json'))
except Exception as e:
    notes = {'change': '?', 'needs_to_manifest': '?'}
meta = {
    'breaks_property': pid,
    'change': notes.get('change'),
    'needs_to_manifest': notes.get('needs_to_manifest'),
    'why_tests_pass': notes.get('why_tests_pass'),
    'source': 'independent sub-agent given only the property text (plus a hint which kind of site to prefer) and a scratch worktree',
}
json.dump(meta, open(f'/verif/seeded/{name}/meta.json', 'w'), indent=1)
PY
  tools/seedcheck.sh $name
done
