#!/usr/bin/env python3
# Regenerates /verif/MANIFEST.json from the table below (run after adding a check).
import json
import os

HERE = os.path.dirname(os.path.dirname(os.path.abspath(__file__)))
PY = '/venv/bin/python'

CHECKS = {
    'C01': dict(
        technique='property-based testing: model trees rendered under generated layouts, matcher oracle over the parsed AST; exhaustive operator pair/triple tables; token-level mutation and word-fusion fuzzing against an Earley recogniser and a longest-match oracle; differential of hpl.grammar against the .lark sources',
        level='bounded exploration with an independent intended-tree oracle: every operator pair (and same-level triple; all triples in the thorough tier) is enumerated, thousands of random type-directed texts per run cover all five entry points, every scope/pattern, disjunction widths 1-4, time units, metadata and keyword-prefixed names under random whitespace and parenthesisation; the reject side is decided by a recogniser built from the .lark sources. Absence of defects beyond depth 5 / these name pools is not shown.',
        note='trusts the .lark files as the documented grammar, Lark Earley as recogniser, and the precedence table transcribed in hplverif/mast.py',
        ref='DESIGN.md section 4, C01',
    ),
    'C02': dict(
        technique='model-based property testing: generated property skeletons with alias/reference placements, an independent scoping function as reference model, verdict differential on three construction routes (parser, API constructors, but()); small-scope exhaustive enumeration of simple-event properties',
        level='bounded exploration with a reference model of HPL scoping: thousands of random properties per run (all scope/pattern kinds, disjunctions, references at top level / quantifier body / quantifier domain / nested), quantifier-hygiene faults, duplicate channels, and the 77 064-point space of simple-event properties with one reference per event (sliced in the quick tier, exhaustive in the thorough tier)',
        note='alias namespace {A,B,C,Z}; the same alias on two alternatives of one disjunction is a documented don\'t-care; own alias captured by a quantifier (finding F16) is repaired and probed by a labelled family',
        ref='DESIGN.md section 4, C02',
    ),
    'C03': dict(
        technique='property-based invariant checking: generated texts parsed through all entry points, every rewriting function applied in compositions of depth 2, each resulting AST walked against an independent signature table (typing invariant as oracle); exhaustive built-in x argument-shape table',
        level='bounded exploration: thousands of generated ASTs per run (type-directed and type-chaotic but accepted) times ~10 derived ASTs each, every node checked for a non-empty type set inside its kind\'s mask, operands inside parameter types, declared results, equal sides of =/!=, bound-variable compatibility, boolean predicate roots and consistent reference groups',
        note='trusts the signature transcription in hplverif/typesig.py; bound variables are required to be compatible with (not contained in) the element type, as the code comments state',
        ref='DESIGN.md section 4, C03',
    ),
    'C04': dict(
        technique='type-directed generation from random message schemas (construction, not rejection) with an acceptance oracle: parser accepts, inferred reference types contain the schema types (own resolver), property-level schema check passes',
        level='bounded exploration: thousands of schema-consistent properties and predicates per run over all scope/pattern shapes, nested messages, fixed/variable arrays, arrays of messages, constants, aliases (incl. own alias), quantified variables, computed indices and every reachable built-in; any rejection is a violation',
        note='well-typedness is by construction against hplverif/typesig.py; quantifiers range over primitive-element collections; sibling binders at different types (finding F12) are repaired and generated freely',
        ref='DESIGN.md section 4, C04',
    ),
    'C05': dict(
        technique='fault injection on generated well-typed predicates: one definite type clash injected at a typed position (from an independent signature table) or as a second use of a definitely typed reference; oracle: the parser raises TypeError',
        level='bounded exploration: thousands of single-clash texts per run covering every position kind (operands of all operators, call arguments, range bounds, set elements, indices, quantifier domains and bodies, predicate roots) and same-reference clashes, through the predicate, condition, expression and property entry points',
        note='a clash is only injected where it is definite by hplverif/typesig.py (literal, operator/call result, or a reference whose inferred type set is a single base type, spelled exactly as in the text)',
        ref='DESIGN.md section 4, C05',
    ),
    'C06': dict(
        technique='property-based round trip: parse generated text, str(), parse again with the entry point of that level; equality, hash and second-print oracle; run-wide injectivity map',
        level='bounded exploration: thousands of parser-produced ASTs per run over all node kinds, with time bounds from the whole double range in both units; every AST must print to text that parses to an equal, hash-equal AST that prints identically, and unequal ASTs must never share a printed form',
        note='only ASTs produced by the parser are in scope (as the property states); texts the parser rejects are counted and skipped; known findings F23 and F24 are listed in known_findings.json',
        ref='DESIGN.md section 4, C06',
    ),
    'C07': dict(
        technique='fuzzing with an exception-class oracle through all five entry points (arbitrary Unicode, token-vocabulary sequences, token-level mutations of valid texts, type-chaotic valid syntax, annotation faults, deep nesting to depth 100), failures bucketed by (exception type, innermost hpl frame); stateful property-based testing (rule-based machine) of parser objects against fresh parser objects',
        level='bounded exploration: thousands of inputs per run, about two thirds of which get past the lexer (measured and reported); every outcome must be an AST of the right kind or a documented error (ValueError only with an unknown function name in the text); parser objects are compared with fresh ones after arbitrary call histories of valid and invalid texts',
        note='the recursion limit is held at the interpreter default relative to the call while the library runs; Lark\'s "expected one of" lists are compared as sets; the thorough tier adds an atheris/libFuzzer campaign over token-index inputs with the same oracle (Hypothesis families are the decider)',
        ref='DESIGN.md section 4, C07',
    ),
    'C08': dict(
        technique='property-based differential evaluation: reference evaluator (exact rationals, three-valued connectives) on original vs simplify() output over a valuation grid; random type-directed terms plus exhaustive small-grammar enumeration',
        level='bounded exploration with a semantic oracle: every term of a small grammar (thorough tier: all ~2.5e5; quick tier: a seed-dependent 1/40 slice) and thousands of random terms to depth 5, each on up to 64/256 valuations including 0, 1, -1, equal/unequal pairs and empty arrays; value equality wherever the original is defined, type preservation, predicate/vacuity rule, and the raise-only-for-zero-divisor rule',
        note='the evaluator in hplverif/ev.py is the trusted meaning of expressions; it abstains (counted in evidence) on undefined originals, coinciding set elements under len/sum/prod, non-integer or reversed ranges, float near-ties and str() of computed numbers; closed sub-terms are size-bounded because simplify folds constants eagerly',
        ref='DESIGN.md section 4, C08',
    ),
    'C09': dict(
        technique='property-based differential evaluation of split_and() parts against the input with the reference evaluator, plus an own shape predicate for indivisibility; random boolean terms and exhaustive small propositional-plus-quantifier grammar',
        level='bounded exploration with a semantic oracle: conjunction of the returned parts equals the input on every defined grid valuation (grid always contains empty arrays/sets as quantifier domains), every part boolean and indivisible by an independent structural predicate, ValueError only for an unsatisfiable input with a literal False',
        note='trusts hplverif/ev.py (three-valued, order-independent connectives and quantifiers); depth <= 5 random, small grammar exhaustive in the thorough tier',
        ref='DESIGN.md section 4, C09',
    ),
    'C10': dict(
        technique='property-based differential evaluation of refactor_reference() results (f1 and f2 vs f) with the reference evaluator, own walkers for alias occurrences and free variables; random alias-mentioning terms and exhaustive small grammar',
        level='bounded exploration with a semantic oracle: equivalence on every defined grid valuation (incl. empty quantifier domains), alias-freedom of f1, no escaping bound variable, kind preservation and the unchanged-input rule, for every alias of each case and one absent alias',
        note='trusts hplverif/ev.py; "f itself" is read as the same object or an equal tree with identical stored types (predicates are re-wrapped by the library)',
        ref='DESIGN.md section 4, C10',
    ),
    'C11': dict(
        technique='exhaustive shape enumeration (1400 scope x pattern x width shapes) instantiated from Hypothesis tapes; expectation computed from the model tree (length, activator-major order, per-member field-by-field comparison, identity/metadata rules, idempotence)',
        level='every one of the 1400 shapes is visited on every run (2 instances each in the quick tier, 30 in the thorough tier) with generated predicates, aliases, bounds and metadata; the decomposition is compared member by member with the expectation derived from the source text',
        note='relies on C01 for text -> AST; alias references are only generated where they stay bound in every member (the other case is the listed known finding F13, probed by a labelled family)',
        ref='DESIGN.md section 4, C11',
    ),
    'C12': dict(
        technique='bounded exhaustive trace enumeration per generated property (small-scope model checking by enumeration) against a reference trace semantics, metamorphic relation "P holds iff every member of canonical_form(P) holds", under two readings of scope re-activation',
        level='for every generated property (hundreds per run, all scope forms x patterns x widths x alias/predicate choices) ALL timed traces up to length 3 (quick) / 4 (thorough) over its own topics with payload 0/1 and gaps 1/3 are enumerated (millions of (property, trace) pairs); a violation must persist under both readings',
        note='the trace semantics in hplverif/ts.py is written from an informal document (docs/semantics.md is TBD): the check validates the decomposition relative to that semantics, not the semantics itself; bounded trace length and a two-value payload',
        ref='DESIGN.md section 4, C12',
    ),
    'C13': dict(
        technique='property-based testing with the reference evaluator: algebraic laws of negate/join, metamorphic relation for this<->variable substitution (evaluate with the variable bound to the message), structural expectation from the model tree, round trip of the two replacements, event-with-own-alias vs alias-free spelling differential',
        level='bounded exploration over four generated families (combinators incl. both vacuous predicates; this->var; var->this; aliased events via parser and via HplSimpleEvent.publish) with value, structure and reference-query oracles',
        note='trusts hplverif/ev.py; aliases captured by a quantifier are excluded, as the property states',
        ref='DESIGN.md section 4, C13',
    ),
    'C14': dict(
        technique='robustness fuzzing of the rewriting API with an exception-class oracle: type-directed and type-chaotic generated ASTs, an exhaustive built-in-function x argument-shape table, literal-left comparison table, small-grammar enumeration; failures bucketed by (function, exception type, innermost hpl frame)',
        level='bounded exploration: every rewriting function is called on every accepted generated AST and must return the documented kind; the only exceptions accepted are those the property allows, each decided by an explicit oracle (evaluator for undefined constants / zero divisors, literal-False test, reference-type clash test)',
        note='canonical_form on properties whose split position binds an alias in only some alternatives is a listed known finding (F13); the allowed-raise rule for simplify also covers sub-terms undefined on the whole valuation grid',
        ref='DESIGN.md section 4, C14',
    ),
    'C15': dict(
        technique='systematic slot-by-kind enumeration plus random generation, every reference query compared with independent walkers that read child slots through getattr (differential against a reference implementation of the queries)',
        level='the slot x node-kind table (an @a reference, a current-message field and a binder placed in every child slot, alone and under every other slot, two context levels; also as aliased-event predicate) is enumerated completely on every run; thousands of random expressions, predicates, API-built events (so that property-level sanity cannot hide event-level queries), properties and specifications in addition',
        note='the walkers rely on the slot table in hplverif/astx.py, which is cross-checked against the attrs fields of the AST classes at start-up',
        ref='DESIGN.md section 4, C15',
    ),
    'C16': dict(
        technique='stateful property-based testing (Hypothesis rule-based state machine): pool of ASTs with deep snapshots, ~24 API operations applied to pool members or their sub-trees, invariant "no earlier snapshot changes" after every step; but() compared with a fresh construction',
        level='bounded exploration of call histories: about a thousand sequences of up to 10 calls per quick run (16 x 1200 x 14 in the thorough tier) over parser-produced properties, predicates and expressions; every stored type, metadata dict and hash of every AST obtained earlier is re-read after each call',
        note='whether a call raises is not judged here (C07/C14 do); sequences are recorded as programs and replayed without Hypothesis',
        ref='DESIGN.md section 4, C16',
    ),
    'C17': dict(
        technique='fault injection into schemas: for a generated valid (property, schema) pair exactly one used declaration is removed / confused / re-typed outside the inferred type set / shortened, located with an own resolver over the parsed AST; exhaustive and generated checks of type tokens; differential of schema navigation helpers against the declared tree',
        level='bounded exploration with single-fault enumeration over generated cases: the valid pair must pass and every single-fault variant must raise (unknown field errors must name the field), at any depth and any position of the predicate, on own and alias paths; integer token bounds and all 128 TypeToken type values are checked exhaustively',
        note='a re-declaration counts as a fault only when the new type lies outside the type set the library inferred for that reference (as the property states); constants are not mutated',
        ref='DESIGN.md section 4, C17',
    ),
    'C18': dict(
        technique='property-based differential: file parse vs per-part parse vs the model tree of each part (matcher oracle incl. exact annotations), generated whitespace joins; single-fault injection (invalid member, duplicate/unknown/misplaced annotation, empty file) with an exception-class oracle',
        level='bounded exploration: thousands of files of 1-6 generated properties per run with every annotation subset/order, structurally equal neighbours with different annotations (within a file and across parses), and eight single-fault families; count, order, equality with stand-alone parses and exact metadata are checked against the text',
        note='relies on C01 for the structure of each part; exception classes of offending members are fixed by construction (type / sanity / syntax) and verified on the member alone at start-up',
        ref='DESIGN.md section 4, C18',
    ),
    'C19': dict(
        technique='property-based differential of the CLI against the parser API and an independent JSON serialisation of the AST (strict decoder rejecting NaN/Infinity), in-process with captured streams plus a sampled real-process run',
        level='bounded exploration: hundreds of (argv, input) cases per run over valid / syntax- / type- / sanity-invalid properties and files, two properties given to -p, empty and missing files, INF / NAN / overflowing bounds / non-ASCII strings, with and without -o json; exit status, diagnostics, absence of JSON on failure and field-by-field JSON equality are checked',
        note='in-process runs call hpl.cli.main; 15 (quick) / 40 per shard (thorough) cases are executed as `python -m hpl` to tie the return value to the process exit status',
        ref='DESIGN.md section 4, C19',
    ),
    'C20': dict(
        technique='small-scope exhaustive enumeration against a 7-bit integer model (generated-input search with a reference model)',
        level='every one of the 128 type sets, 128^2 pairs and 128^3 triples is enumerated and compared with a bit-mask model; the space is finite, so on this tree the statement is checked completely (exhaustive: true)',
        note='trusts Python int bit operations; assumes the seven base types are the enum members declared in hpl/types.py',
        ref='DESIGN.md section 4, C20',
    ),
}

# Additions of the second build session (DESIGN.md section 8.6), appended to the texts above.
EXTRA = {
    'C02': dict(level=' A shadowing family draws quantifier variables, aliases and free references from one pool of three names (nesting depth 3, quantifiers inside domains); API-built disjunctions are nested in every shape, not only as the parser nests them.',
                technique='; shadowing family (one name pool for binders, aliases and free references); API-built disjunction nestings'),
    'C05': dict(level=' A deterministic table places four kinds of reference (and a quantified variable, also across nested binders) at every typed position of the signature table and uses it again at every disjoint type, in both orders, under `or` and behind a neutral use: about 4 500 clash texts, enumerated completely on every run.',
                technique='; exhaustive position x later-use clash table derived from the signature table'),
    'C07': dict(level=' An order differential runs sequences of up to 40 related calls (repeated, respelled, truncated, junk-inserted texts, annotated files, whitespace changed inside string literals) forwards on one set of parser objects and backwards on another and requires equal outcomes call by call.',
                technique='; order-differential sequence testing of parser objects (forward vs reverse call order, attributed with fresh parsers)'),
    'C08': dict(level=' The small grammar now also holds algebraic-law tables (power towers, products of powers, linear terms with two constants, comparisons solved for the variable), comparison pairs under every connective, nested quantifiers and aggregate/membership tables over literal ranges and sets (the last enumerated completely in both tiers); every grid is extended by wide valuations (larger numbers, other fractions, arrays of 3-4 elements); a third of the random inputs are results of other API functions (compositions), and simplify is applied a second time.',
                technique='; algebraic-law and aggregate tables; inputs derived through other API functions (metamorphic compositions)'),
    'C09': dict(level=' Inputs also include results of other API functions (simplify, negate, parts, refactor halves), the algebraic-law / comparison-pair / nested-quantifier tables and wide valuations.', technique='; derived inputs (compositions)'),
    'C10': dict(level=' Inputs also include results of other API functions, nested-quantifier tables (alias in inner and outer domains) and wide valuations.', technique='; derived inputs (compositions)'),
    'C11': dict(level=' A history family applies canonical_form repeatedly in one process (same object, equal property under other annotations, but()-copies with another bound / behaviour / scope, API-renested disjunctions, members of earlier results) and checks every result against the object actually passed; a vacuity table (16 848 properties with absent / {True} / {False} / {x > 0} predicates per position) is sliced in the quick tier and enumerated in the thorough tier.',
                technique='; call-history family (model-based: expectation recomputed from the argument of every call); vacuity table'),
    'C12': dict(level=' A quarter of the properties are judged after a history (canonical_form already applied; copy with another or no time bound; the same text parsed again); event predicates include {True} and {False}.', technique='; histories (derived properties)'),
    'C13': dict(level=' join() is also applied to related operands (the same predicate, its negation, one operator / literal / quantifier kind changed) and to a deterministic table of quantified operands over the same binder.', technique='; related-operand pairs and join table'),
    'C14': dict(level=' Every function is also called on non-boolean expressions (totality and container kind only) and on the vacuity table of properties.', technique='; vacuity table; non-boolean inputs'),
    'C15': dict(level=' Events are built through the API with their disjunctions nested in every shape.', technique='; API-built disjunction nestings'),
    'C16': dict(level=' Every node object a step creates gets a note written into its metadata dict for a moment (and durably by an annotate step); no tree obtained earlier may show it.', technique='; metadata-aliasing probe on every created object'),
    'C19': dict(level=' Numerals include integers beyond the float range and 360-digit integers.', technique=''),
}
_MORE = {
    'C01': ' An integer numeral must denote an int and a decimal numeral a float.',
    'C02': ' A derived sub-check takes a parsed (checked) property, renames references or binders through replace_var_reference() / but() on its own event objects and compares the verdict with the scoping oracle of the derived model; a deterministic duplicate-channel table covers widths 2-4, every pair, every position and eight nesting shapes.',
    'C04': ' A third of the predicates are preceded, in the same process, by ill-typed relatives (of the same and of another predicate over the same field names) that must not disturb their acceptance.',
    'C06': ' A quarter of the cases are followed by their relatives (equal numbers respelled, aliases renamed, other annotations). Known finding F23 (own alias as a bare message value has no printed form) and F24 (a field named like a constant or prefix keyword read through the own alias prints as that word) are probed by labelled families.',
    'C07': ' A sample of texts with two faults of different kinds is also parsed in a brand-new interpreter and the outcome class compared with this process (process-level history); character-level edits of valid texts reach every parser state.',
    'C10': ' Copies made by the library after a warm round of calls (alias renamed, current message turned into a variable) are refactored and judged by the same oracle.',
    'C13': ' Substitution slot table (single mention in 16 slot kinds, two roots, both directions); merge-and-undo sequence with an alias that already occurs.',
    'C15': ' Copies made by replace_var_reference / replace_self_reference after the queries were answered are queried again; alias-binder table for aliased events.',
    'C18': ' Files are parsed again under their ids only; fault families include one or two members damaged on an annotation line.',
    'C19': ' Accepted cases are followed by relatives (other annotations, respelled numbers, renamed aliases); undecodable files; real-process runs under four stdio encodings.',
}
_MORE2 = {
    'C03': ' A position table places five kinds of reference at every typed position of the signature table; a print-alike table joins simplified narrow trees with a use of the same reference at another type.',
    'C11': ' A shared-alias family (every alternative of a split position binds the same alias, later events refer to it) is enumerated.',
    'C12': ' Pattern events may listen on the channel of the terminator or activator; predicates include conjunctions, disjunctions, negations and unsatisfiable conjunctions.',
    'C14': ' Degenerate pipelines: every function on 17 roots that are a bare literal / variable / set / range / accessor, and again on everything returned.',
    'C15': ' Near-miss names (suffix, prefix, one character more or less, other case) are asked of every tree.',
    'C17': ' A nested-array table (declared lengths at two levels, literal indices at both levels, four syntactic forms: 576 cases) is enumerated completely.',
}
_MORE3 = {
    'C01': ' The fusion family also glues a word to a following channel name that starts with `/`.',
    'C04': ' The terminator may bind again the alias names of the pattern events (legal, and a later event reads through the name).',
    'C05': ' A substitution sub-check makes the same clashes through replace_var_reference (a variable at every typed position of the table and at the predicate root, replaced by a term of a disjoint type): TypeError is required.',
    'C07': ' A flat-repetition family writes one short unit 2-600 times behind an opener that may leave a string, annotation, bracket or pattern open (termination: per-call limit).',
    'C10': ' Quantifiers are nested directly with the inner domain built on the outer variable.',
    'C11': ' History steps also set a lower time bound (only the API can).',
    'C12': ' Predicates include quantified spellings whose bound variable carries the name of an alias used elsewhere in the property.',
    'C17': ' A quarter of the navigation schemas declare a constant under the name of a field.',
    'C18': ' Unknown annotation keys are derived from the known ones (substrings, one character more, other case).',
    'C19': ' A fifth of the inputs carry one character on which the notions of blank disagree (25 of them) at the end, the beginning or in place of a space.',
}
_MORE4 = {
    'C02': ' References are placed at fifteen syntactic positions (index, range bound, set element, call argument, quantifier domain as accessor / range / set, inner domains, ...).',
    'C05': ' An API call table builds calls with 2-5 arguments (only the API can) with a reference at every argument position and a use of it at a disjoint type: TypeError is required.',
    'C11': ' A share step puts the same event object into two positions.',
    'C14': ' A quarter of the random inputs pass through API steps first, including calls widened to several arguments; a deterministic table puts multi-argument calls under plain and negated quantifiers (1 440 derived inputs).',
}
_MORE5 = {
    'C16': ' A field table checks that equality takes every constructor field but metadata into account (a copy differing in one field alone is unequal; differing in metadata alone is equal and hashes alike).',
    'C17': ' Enumerated declarations include wrong-kind values that are equal to well-kinded ones.',
    'C18': ' Members with two faults of different kinds must reject the file with the class they raise on their own.',
}
for _pid, _t in _MORE5.items():
    EXTRA.setdefault(_pid, dict(level='', technique=''))
    EXTRA[_pid]['level'] += _t
for _pid, _t in _MORE4.items():
    EXTRA.setdefault(_pid, dict(level='', technique=''))
    EXTRA[_pid]['level'] += _t
for _pid, _t in _MORE3.items():
    EXTRA.setdefault(_pid, dict(level='', technique=''))
    EXTRA[_pid]['level'] += _t
for _pid, _t in _MORE2.items():
    EXTRA.setdefault(_pid, dict(level='', technique=''))
    EXTRA[_pid]['level'] += _t
for _pid, _t in _MORE.items():
    EXTRA.setdefault(_pid, dict(level='', technique=''))
    EXTRA[_pid]['level'] += _t
for _pid in ('C02', 'C04', 'C06', 'C10', 'C11', 'C15', 'C18', 'C19'):
    EXTRA[_pid]['technique'] += '; call histories (relatives of a case and copies derived by the library, judged by the same oracle)'
for _pid in ('C08', 'C09', 'C10', 'C13', 'C14'):
    EXTRA.setdefault(_pid, dict(level='', technique=''))
    EXTRA[_pid]['level'] += ' The thorough tier adds coverage-guided campaigns (atheris/libFuzzer, 8 processes x 60 000 executions) whose byte input is the tape of the check\'s own generator, with the same semantic oracle inside the target.'
    EXTRA[_pid]['technique'] += '; coverage-guided fuzzing of generator tapes (atheris) with the semantic oracle in the target (thorough tier)'
for _pid, _e in EXTRA.items():
    CHECKS[_pid]['level'] += _e['level']
    CHECKS[_pid]['technique'] += _e['technique']

ALL = [f'C{i:02d}' for i in range(1, 21)]


def main():
    checks = []
    for pid in ALL:
        if pid not in CHECKS:
            continue
        c = CHECKS[pid]
        checks.append(
            {
                'property_id': pid,
                'quick_cmd': f'cd /verif && {PY} -m hplverif.run {pid} --tier quick',
                'thorough_cmd': f'cd /verif && {PY} -m hplverif.run {pid} --tier thorough',
                'evidence_file': f'/verif/evidence/{pid}.json',
                'replay_cmd_template': f'cd /verif && {PY} -m hplverif.replay {{path}}',
                'engine': 'hplverif',
                'level_claimed': {'category': c.get('category', 'exploration'), 'text': c['level'], 'design_ref': c['ref']},
                'level_note': c['note'],
                'technique': c['technique'],
            }
        )
    na = [
        {'property_id': pid, 'reason': 'check not built yet in this session (planned in DESIGN.md section 4); not claimed until its check is registered'}
        for pid in ALL
        if pid not in CHECKS
    ]
    manifest = {
        'version': 1,
        'setup_cmd': f'cd /verif && {PY} -m hplverif.setup',
        'hooks': {
            'guard': 'HPL_SPECS_VERIF',
            'enable': 'no hooks are needed: the checks import hpl from /repo/src of the working tree (sys.path), set HPL_SPECS_VERIF=1 for form only',
            'baseline_off_cmd': 'cd /repo && /venv/bin/python -m pytest -ra -q -p no:cacheprovider --timeout=900 --continue-on-collection-errors',
            'source_commits': [],
            'add_only': True,
        },
        'engines': [
            {
                'name': 'hplverif',
                'path': '/verif/hplverif',
                'serves_properties': [c['property_id'] for c in checks],
                'kind_free_text': 'property-based testing: Hypothesis strategies over model trees, small-scope exhaustive enumeration, stateful machines, explicit oracles (model matcher, reference evaluator, trace semantics, type table)',
            }
        ],
        'checks': checks,
        'not_applicable': na,
        'notes': 'All checks: python -m hplverif.run <ID> --tier quick|thorough; honours VERIF_SEED and VERIF_TIER; exit 0 held / 1 VIOLATION / 2 harness error. Known findings: /verif/known_findings.json.',
    }
    with open(os.path.join(HERE, 'MANIFEST.json'), 'w') as f:
        json.dump(manifest, f, indent=1)
    print(f'{len(checks)} checks, {len(na)} not claimed')


if __name__ == '__main__':
    main()
