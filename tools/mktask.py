#!/usr/bin/env python3
"""tools/mktask.py <letter> <angles.json>: write the task file for one sub-agent per property into a fresh scratch
worktree /tmp/sd<letter>/<ID> of /repo HEAD. The task text contains only the property (title + statement), the
worktree path and a hint which kind of site to prefer (so that the series differ) - nothing about the checks.

angles.json: {"C01": "preferred angle / what to avoid", ...}; only the listed properties get a task."""
import json
import os
import subprocess
import sys

letter = sys.argv[1]
angles = json.load(open(sys.argv[2]))
props = {}
for line in open(os.path.join(os.path.dirname(__file__), '..', 'properties.jsonl')):
    d = json.loads(line)
    props[d['id']] = d

TEMPLATE = """# Task: write a subtle property-breaking change to hpl-specs

You are helping to evaluate a verification effort for the Python package `hpl` (repository git-afsantos/hpl-specs:
parser, AST, type inference and logic rewriter for HPL, a specification language for message-based behavioural
properties). Your job is to play the part of a developer who introduces a *realistic, subtle regression*.

Your private scratch git worktree of the repository is `{wt}` (sources in `{wt}/src/hpl`, tests in `{wt}/tests`,
docs in `{wt}/docs`). Work ONLY inside `{wt}`. Never read or write `/repo` or `/verif` (not even to look).
Run Python as `/venv/bin/python` with `PYTHONPATH={wt}/src` and `PYTHONHASHSEED=0` so that your worktree's code is
imported (check with `python -c "import hpl; print(hpl.__file__)"`). No network is available.
Note: the module-level helpers `hpl.parser.parse_property` etc. rebuild the parser on every call (~0.1 s); for loops
create `hpl.parser.property_parser()` / `predicate_parser()` / `condition_parser()` / `expression_parser()` /
`specification_parser()` once and call `.parse(text)`.

## The property that must hold (and that your change must break)

**{pid}: {title}**

{statement}

## What to produce

A change to the sources under `{wt}/src/hpl` (one or a few small edits, the kind a maintainer could plausibly make as
a refactoring, optimisation, clean-up or misguided fix) such that

1. the package still imports and the existing test suite still passes completely:
   `cd {wt} && rm -rf .hypothesis && PYTHONPATH={wt}/src PYTHONHASHSEED=0 /venv/bin/python -m pytest -q -p no:cacheprovider`
   must report 49 passed (run it before and after your change; two tests are Hypothesis-based - if one of them fails
   because of your change, the change is too visible. Known flake unrelated to you: the generated text
   `globally: no causes a` occasionally fails `test_valid_generated_properties` on the clean tree too; delete
   `.hypothesis/` and re-run in that case);
2. the property above is violated for SOME inputs, but only ones that need something specific to manifest - a
   multi-step sequence of operations, an unusual input shape, a particular combination of constructs, or two
   cooperating sites that each look fine alone. Ordinary everyday inputs (like the ones in `tests/` and `docs/`)
   must behave exactly as before. Avoid changes that the most obvious input would expose at once.
   Preferred angle for this one: {angle}
3. you have a demonstration `{wt}/_out/demo_{pid}{letter}.py`: a small stand-alone program that exits with status 0 on
   the unchanged tree and status 1 (printing what went wrong) with your change, because it observes the violation of
   the property on a concrete input. It must import `hpl` from `PYTHONPATH` (do not hard-code the worktree path in
   sys.path) and must not depend on anything outside the standard library and `hpl`.

Before you start editing, read the relevant sources so that the change is genuinely subtle. Do not edit tests, docs
or packaging. If the package has generated copies of the grammar (`src/hpl/grammar.py` is generated from
`src/hpl/grammars/*.lark` by `scripts/build_grammars.py`), keep both in step by editing both by hand if your change
touches the grammar (do NOT run the build script: it reformats the file).

## Deliverables (all under `{wt}/_out/`)

* `patch.diff` - output of `cd {wt} && git diff -- src` with your final change (must apply with `git apply` to a
  clean checkout of the same commit);
* `demo_{pid}{letter}.py` - the demonstration described above;
* `notes.json` - `{{"change": "<one or two sentences: what was changed and where>", "needs_to_manifest": "<what
  specific input / sequence / combination is needed>", "why_tests_pass": "<one sentence>"}}`.

Verify yourself, at the end: (a) `git apply -R _out/patch.diff` to get the clean tree -> demo exits 0; (b) with the
patch -> demo exits 1; (c) with the patch the 49 tests pass. Leave the worktree WITH the patch applied when you finish.
Reply with a three-line summary (what you changed, what manifests it, the three verification results).
"""

base = f'/tmp/sd{letter}'
os.makedirs(base, exist_ok=True)
for pid, angle in sorted(angles.items()):
    wt = f'{base}/{pid}'
    subprocess.run(['git', '-C', '/repo', 'worktree', 'remove', '--force', wt], capture_output=True)
    subprocess.run(['git', '-C', '/repo', 'worktree', 'add', '-q', '--detach', wt, 'HEAD'], check=True)
    os.makedirs(f'{wt}/_out', exist_ok=True)
    d = props[pid]
    open(f'{wt}/_out/TASK.md', 'w').write(
        TEMPLATE.format(wt=wt, pid=pid, title=d['title'], statement=d['statement'], angle=angle, letter=letter)
    )
    print(wt)
