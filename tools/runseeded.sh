#!/bin/bash
# Run checks against a seeded change: tools/runseeded.sh <name> <ID> [<ID> ...]
# The patch is applied in a scratch worktree of /repo HEAD under /tmp (never in /repo itself, so that
# background runs against /repo are not disturbed); evidence and replays of such runs go to /tmp.
set -u
name=$1; shift
wt=/tmp/rs_${name}_$$
git -C /repo worktree add -q --detach $wt HEAD || exit 2
trap 'git -C /repo worktree remove --force '$wt EXIT
(cd $wt && git apply /verif/seeded/$name/patch.diff) || exit 2
cd /verif
for id in "$@"; do
  out=$(HPL_REPO_DIR=$wt /venv/bin/python -m hplverif.run $id --tier ${TIER:-quick} 2>&1); rc=$?
  echo "== $name vs $id: rc=$rc"
  echo "$out" | grep -E "^VIOLATION|^KNOWN|HARNESS|signature|cases," | head -12
done
