#!/bin/bash
# Run checks against a seeded change: tools/runseeded.sh <name> <ID> [<ID> ...]
# Applies the patch to /repo, runs the quick tier of each check, and always reverts.
set -u
name=$1; shift
cd /repo || exit 2
if [ -n "$(git status --porcelain --untracked-files=no)" ]; then echo "/repo is dirty"; exit 2; fi
git apply /verif/seeded/$name/patch.diff || exit 2
trap 'git -C /repo checkout -- . ' EXIT
cd /verif
for id in "$@"; do
  out=$(/venv/bin/python -m hplverif.run $id --tier ${TIER:-quick} 2>&1); rc=$?
  echo "== $name vs $id: rc=$rc"
  echo "$out" | grep -E "^VIOLATION|^KNOWN|HARNESS|signature|cases," | head -12
done
