#!/bin/bash
# tools/thorough_all.sh [seed] [IDs...]: the thorough tier of the given (default: all) checks, one after the other; evidence and replays go to a scratch
# directory (not /verif/evidence). Prints one summary line per check.
cd "$(dirname "$0")/.."
seed=${1:-1}; shift
ids=${@:-C01 C02 C03 C04 C05 C06 C07 C08 C09 C10 C11 C12 C13 C14 C15 C16 C17 C18 C19 C20}
out=${THOROUGH_OUT:-/tmp/hplverif-thorough-$seed}
mkdir -p $out
for c in $ids; do
  VERIF_SEED=$seed VERIF_EVIDENCE_DIR=$out/evidence VERIF_REPLAY_DIR=$out/replays /venv/bin/python -m hplverif.run $c --tier thorough > $out/$c.log 2>&1
  echo "$c rc=$? $(tail -n 1 $out/$c.log)"
  grep -E "^VIOLATION|signature:|HARNESS" $out/$c.log | head -12
done
