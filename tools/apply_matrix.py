#!/usr/bin/env python3
"""tools/apply_matrix.py <matrix.tsv> [note]: record in seeded/<name>/meta.json which quick checks detected the change
(lines "<name>\t<check>\t<rc>", rc 1 = detected) and append the detecting pairs to seeded/matrix.tsv."""
import collections
import json
import os
import sys

rows = [l.rstrip('\n').split('\t') for l in open(sys.argv[1]) if l.strip()]
note = sys.argv[2] if len(sys.argv) > 2 else 'quick tier, VERIF_SEED=1 (tools/matrix.sh); only detecting checks are listed'
det = collections.defaultdict(list)
seen = collections.defaultdict(set)
for name, check, rc in rows:
    seen[name].add(check)
    if rc == '1' and check not in det[name]:
        det[name].append(check)
base = os.path.join(os.path.dirname(__file__), '..', 'seeded')
old = set()
mpath = os.path.join(base, 'matrix.tsv')
lines = [l.rstrip('\n') for l in open(mpath)] if os.path.exists(mpath) else []
lines = [l for l in lines if l.split('\t')[0] not in seen]
for name in sorted(seen):
    p = os.path.join(base, name, 'meta.json')
    if not os.path.exists(p):
        continue
    meta = json.load(open(p))
    prev = [c for c in meta.get('detected_by', []) if c not in seen[name]]
    meta['detected_by'] = sorted(set(prev) | set(det[name]))
    meta['detected_by_note'] = note
    json.dump(meta, open(p, 'w'), indent=1)
    for c in sorted(det[name]):
        lines.append(f'{name}\t{c}\t1')
open(mpath, 'w').write('\n'.join(sorted(lines)) + '\n')
print({n: det[n] for n in sorted(seen)})
