#!/bin/bash
# tools/seeds.sh <seed> [<seed> ...]: every quick check at the given seeds (evidence is NOT kept: written to /tmp)
cd "$(dirname "$0")/.."
for s in "$@"; do
  for c in C01 C02 C03 C04 C05 C06 C07 C08 C09 C10 C11 C12 C13 C14 C15 C16 C17 C18 C19 C20; do
    (VERIF_SEED=$s VERIF_EVIDENCE_DIR=/tmp/hplverif-seeds/evidence VERIF_REPLAY_DIR=/tmp/hplverif-seeds/replays /venv/bin/python -m hplverif.run $c > /tmp/seeds_${c}_$s.log 2>&1; rc=$?; [ $rc -ne 0 ] && echo "$c seed $s rc=$rc: $(grep -E 'signature|HARNESS' /tmp/seeds_${c}_$s.log | head -3 | tr '\n' ' ')") &
    while [ $(jobs -r | wc -l) -ge 14 ]; do sleep 0.5; done
  done
done
wait
echo "seeds $@ done"
