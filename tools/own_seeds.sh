#!/bin/bash
# tools/own_seeds.sh <seed...>: every seeded change against the check of its own property, at the given seeds,
# WITHOUT the regression corpus (VERIF_NO_REGRESSIONS=1), to measure how robustly the generators find it.
cd "$(dirname "$0")/.."
for name in $(ls seeded | grep -v matrix); do
  id=$(python3 -c "import json;print(json.load(open('seeded/$name/meta.json'))['breaks_property'])")
  wt=/tmp/os_$name
  git -C /repo worktree remove --force $wt 2>/dev/null
  git -C /repo worktree add -q --detach $wt HEAD
  (cd $wt && git apply /verif/seeded/$name/patch.diff) || { echo "$name: patch does not apply"; continue; }
  for s in "$@"; do
    (HPL_REPO_DIR=$wt VERIF_SEED=$s VERIF_NO_REGRESSIONS=1 /venv/bin/python -m hplverif.run $id > /tmp/os_${name}_$s.log 2>&1; echo -e "$name\t$id\t$s\t$?" >> /tmp/own_seeds.tsv) &
    while [ $(jobs -r | wc -l) -ge 6 ]; do sleep 0.5; done
  done
done
wait
for name in $(ls seeded | grep -v matrix); do git -C /repo worktree remove --force /tmp/os_$name 2>/dev/null; done
sort /tmp/own_seeds.tsv | awk -F'\t' '$4!=1'
echo "own_seeds done"
