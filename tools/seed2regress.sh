#!/bin/bash
# tools/seed2regress.sh <name>: run the own check of a seeded change against it (scratch worktree) and keep up to
# two of the shrunk failing inputs as regression cases /verif/regressions/<ID>/seeded-<name>.json
name=$1
id=$(python3 -c "import json;print(json.load(open('/verif/seeded/$name/meta.json'))['breaks_property'])")
wt=/tmp/s2r_$name
git -C /repo worktree remove --force $wt 2>/dev/null
git -C /repo worktree add -q --detach $wt HEAD || exit 2
(cd $wt && git apply /verif/seeded/$name/patch.diff) || { git -C /repo worktree remove --force $wt; exit 2; }
rm -rf /tmp/rp_$name; mkdir -p /tmp/rp_$name
(cd /verif && HPL_REPO_DIR=$wt VERIF_REPLAY_DIR=/tmp/rp_$name VERIF_EVIDENCE_DIR=/tmp/rp_$name/ev /venv/bin/python -m hplverif.run $id > /tmp/rp_$name/log 2>&1)
git -C /repo worktree remove --force $wt
python3 - "$name" "$id" <<'PY'
import glob, json, os, sys
name, pid = sys.argv[1], sys.argv[2]
cases = []
for f in sorted(glob.glob(f'/tmp/rp_{name}/{pid}-*.json'))[:2]:
    r = json.load(open(f))
    if len(json.dumps(r['input'])) > 20000:
        continue
    cases.append({'sub': r['sub'], 'input': r['input'], 'found_as': r['sig']})
if cases:
    os.makedirs(f'/verif/regressions/{pid}', exist_ok=True)
    json.dump({'cases': cases, 'note': f'shrunk failing inputs found when the check ran against the seeded change {name}; they hold on the unchanged tree'}, open(f'/verif/regressions/{pid}/seeded-{name}.json', 'w'), indent=1)
print(name, pid, len(cases), 'case(s)')
PY
