#!/bin/bash
# Confirm a seeded change: tools/seedcheck.sh <name>
#   /verif/seeded/<name>/patch.diff applies to /repo HEAD, the existing suite still passes with it,
#   and the demonstration passes without it and fails with it. Uses a scratch worktree under /tmp.
set -u
name=$1
d=/verif/seeded/$name
wt=/tmp/sc_$name
git -C /repo worktree remove --force $wt 2>/dev/null
git -C /repo worktree add -q --detach $wt HEAD || exit 2
demo=$(ls $d/demo_*.py | head -1)
cp $demo $wt/
cd $wt
export PYTHONPATH=$wt/src PYTHONHASHSEED=0
/venv/bin/python $(basename $demo) >/tmp/sc_$name.base.log 2>&1; base=$?
git apply $d/patch.diff || { echo "patch does not apply"; git -C /repo worktree remove --force $wt; exit 2; }
/venv/bin/python $(basename $demo) >/tmp/sc_$name.mut.log 2>&1; mut=$?
rm -rf .hypothesis
tests=$(/venv/bin/python -m pytest -q -p no:cacheprovider 2>&1 | tail -1)
cd /; git -C /repo worktree remove --force $wt
echo "$name: demo base rc=$base, with change rc=$mut; tests: $tests"
