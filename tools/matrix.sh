#!/bin/bash
# tools/matrix.sh [seeded names...]: run every quick check against each seeded change (in scratch worktrees, never in /repo)
# Output: /verif/seeded/matrix.tsv lines "<seeded>\t<check>\t<rc>"
cd /verif
names=${@:-$(ls seeded | grep -v matrix)}
for name in $names; do
  wt=/tmp/mx_$name
  git -C /repo worktree remove --force $wt 2>/dev/null
  git -C /repo worktree add -q --detach $wt HEAD || continue
  (cd $wt && git apply /verif/seeded/$name/patch.diff) || { echo "$name: patch does not apply"; git -C /repo worktree remove --force $wt; continue; }
  for c in C01 C02 C03 C04 C05 C06 C07 C08 C09 C10 C11 C12 C13 C14 C15 C16 C17 C18 C19 C20; do
    (HPL_REPO_DIR=$wt VERIF_NO_EVIDENCE=1 /venv/bin/python -m hplverif.run $c > /tmp/mx_${name}_$c.log 2>&1; echo -e "$name\t$c\t$?" >> /tmp/matrix.$$.tsv) &
    while [ $(jobs -r | wc -l) -ge 14 ]; do sleep 0.5; done
  done
  wait
  git -C /repo worktree remove --force $wt
done
sort /tmp/matrix.$$.tsv > /tmp/matrix.last.tsv; rm -f /tmp/matrix.$$.tsv
cat /tmp/matrix.last.tsv | awk -F'\t' '$3!=0' 
