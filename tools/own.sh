#!/bin/bash
# tools/own.sh <seeded name...>: each seeded change against the quick check of its own property (scratch worktrees, parallel).
# Extra checks: name:ID[,ID...]  e.g.  tools/own.sh C12-d:C11,C12
cd "$(dirname "$0")/.."
for spec in "$@"; do
  name=${spec%%:*}
  ids=${spec#*:}
  [ "$ids" = "$spec" ] && ids=$(python3 -c "import json;print(json.load(open('seeded/$name/meta.json'))['breaks_property'])")
  wt=/tmp/ow_$name
  git -C /repo worktree remove --force $wt 2>/dev/null
  git -C /repo worktree add -q --detach $wt HEAD || continue
  (cd $wt && git apply /verif/seeded/$name/patch.diff) || { echo "$name: patch does not apply"; continue; }
  for id in ${ids//,/ }; do
    (env HPL_REPO_DIR=$wt VERIF_SEED=${VERIF_SEED:-1} ${NOREG:+VERIF_NO_REGRESSIONS=1} /venv/bin/python -m hplverif.run $id > /tmp/ow_${name}_$id.log 2>&1; rc=$?
     echo "$name vs $id: rc=$rc $(grep -E 'signature' /tmp/ow_${name}_$id.log | head -3 | tr '\n' ' ')") &
    while [ $(jobs -r | wc -l) -ge 14 ]; do sleep 0.5; done
  done
done
wait
for spec in "$@"; do git -C /repo worktree remove --force /tmp/ow_${spec%%:*} 2>/dev/null; done
