#!/venv/bin/python
# Own sensitivity mutants (DESIGN.md section 4, "Sensitivity"): small deliberate breaks of /repo, each aimed at one
# check. tools: python sensitivity/mutants.py [names...]  -> applies each in a scratch worktree under /tmp, runs the
# repo's tests and the target check (quick tier), removes the worktree, and writes sensitivity/results.tsv.
import os
import subprocess
import sys

E = 'src/hpl/ast/expressions.py'
P = 'src/hpl/parser.py'
R = 'src/hpl/rewrite.py'
PR = 'src/hpl/ast/properties.py'
EV = 'src/hpl/ast/events.py'
PD = 'src/hpl/ast/predicates.py'
T = 'src/hpl/types.py'
B = 'src/hpl/ast/base.py'
C = 'src/hpl/cli.py'

MUTANTS = [
    ('c01-swap-operands', 'C01', P, 'return HplBinaryOperator(op, lhs, rhs)', 'return HplBinaryOperator(op, rhs, lhs)'),
    ('c01-range-excl', 'C01', P, "exc_max = rr.endswith('!')", "exc_max = rr.startswith('!')"),
    ('c01-ms-not-converted', 'C01', P, 'n = n / 1000.0', 'n = n / 1.0'),
    ('c01-requires-roles', 'C01', P, 'return HplPattern.requirement(b, a, max_time=max_time)', 'return HplPattern.requirement(a, b, max_time=max_time)'),
    ('c01-disjunction-reversed', 'C01', P, 'return HplEventDisjunction(children[0], children[1])', 'return HplEventDisjunction(children[1], children[0])'),
    ('c02-requirement-order', 'C02', PR, '        elif self.pattern.is_requirement:\n            aliases = self._check_behaviour(initial)\n            self._check_trigger(aliases)', '        elif self.pattern.is_requirement:\n            aliases = self._check_trigger(initial)\n            self._check_behaviour(aliases)'),
    ('c02-no-terminator-check', 'C02', PR, '        self._check_terminator(initial)', '        pass'),
    ('c02-terminator-sees-all', 'C02', PR, "            raise TypeError(f'unexpected pattern type: {self.pattern!r}')\n        self._check_terminator(initial)", "            raise TypeError(f'unexpected pattern type: {self.pattern!r}')\n        self._check_terminator(aliases if not (self.pattern.is_absence or self.pattern.is_existence) else initial)"),
    ('c02-duplicate-channels', 'C02', EV, '            if event.name in names:\n                raise HplSanityError.duplicate_event(event.name, self)', '            pass'),
    ('c03-not-accepts-primitive', 'C03', E, "return cls(NOT_OPERATOR, DataType.BOOL, DataType.BOOL)", "return cls(NOT_OPERATOR, DataType.PRIMITIVE, DataType.BOOL)"),
    ('c04-constants-rejected', 'C04', E, "        if self.field in t.constants:\n            return t.constants[self.field][0]\n", ""),
    ('c05-set-elements-any', 'C05', E, 'return tuple(v.cast(DataType.PRIMITIVE) for v in values)', 'return tuple(v.cast(DataType.ANY) for v in values)'),
    ('c05-no-same-ref-check', 'C05', PD, '        self._all_refs_same_type(ref_table)', '        pass'),
    ('c06-no-outer-parens', 'C06', E, "return f'({self.operand1} {self.operator} {self.operand2})'", "return f'{self.operand1} {self.operator} {self.operand2}'"),
    ('c06-excl-min-bracket', 'C06', E, "lp = '![' if self.exclude_min else '['", "lp = '['"),
    ('c06-alias-not-printed', 'C06', EV, "alias = (' as ' + self.alias) if self.alias is not None else ''", "alias = ''"),
    ('c06-requires-swapped', 'C06', PR, "return f'{self.behaviour} requires {self.trigger}{t}'", "return f'{self.trigger} requires {self.behaviour}{t}'"),
    ('c07-unexpected-characters', 'C07', P, 'except (UnexpectedToken, UnexpectedCharacters, SyntaxError) as e:', 'except (UnexpectedToken, SyntaxError) as e:'),
    ('c07-duplicate-assert', 'C07', P, '            raise HplSyntaxError.duplicate_metadata(dup, pid=pid)', '            assert False, dup'),
    ('c08-implies-no-not', 'C08', R, 'return _simplify(Or(Not(p), q))', 'return _simplify(Or(p, q))'),
    ('c08-minus-zero', 'C08', R, "    a: HplExpression = expr.operand1\n    b: HplExpression = expr.operand2\n    if isinstance(b, HplLiteral):\n        if b.value == 0:\n            return a\n        if isinstance(a, HplLiteral):\n            return HplLiteral.number(a.value - b.value)", "    a: HplExpression = expr.operand1\n    b: HplExpression = expr.operand2\n    if isinstance(b, HplLiteral):\n        if b.value == 0:\n            return b\n        if isinstance(a, HplLiteral):\n            return HplLiteral.number(a.value - b.value)"),
    ('c08-x-over-x', 'C08', R, "    if a == b:\n        return HplLiteral.number(1)", "    if a == b:\n        return HplLiteral.number(0)"),
    ('c08-lt-inverse', 'C08', R, 'BuiltinBinaryOperator.LT.value: BuiltinBinaryOperator.GT.value,', 'BuiltinBinaryOperator.LT.value: BuiltinBinaryOperator.GTE.value,'),
    ('c09-demorgan', 'C09', R, "        assert isinstance(phi, HplBinaryOperator)\n        return And(Not(phi.a), Not(phi.b))", "        assert isinstance(phi, HplBinaryOperator)\n        return And(Not(phi.a), phi.b)"),
    ('c09-not-implies', 'C09', R, "        # ~(a -> b)  ==  ~(~a | b)  ==  a & ~b\n        return And(phi.a, Not(phi.b))", "        # ~(a -> b)  ==  ~(~a | b)  ==  a & ~b\n        return And(Not(phi.a), Not(phi.b))"),
    ('c09-no-empty-guard', 'C09', R, "                qb = Or(empty_test(quant.domain), phi.b)\n            return And(qa, qb)", "                qb = phi.b\n            return And(qa, qb)"),
    ('c09-exists-for-forall', 'C09', R, "            phi = Forall(phi.variable, phi.domain, p)\n            return _split_and_quantifier(phi)", "            phi = HplQuantifier.exists(phi.variable, phi.domain, p)\n            return _split_and_quantifier(phi)"),
    ('c10-swapped-halves', 'C10', R, "            if a and not b:\n                return (op.b, op.a)", "            if a and not b:\n                return (op.a, op.b)"),
    ('c10-bound-variable-escapes', 'C10', R, "            if a and not b:\n                if va:\n                    qa = Forall(var, quant.domain, expr.a)\n                else:\n                    qa = Or(empty_test(quant.domain), expr.a)\n                if vb:\n                    qb = Forall(var, quant.domain, expr.b)\n                else:\n                    qb = Or(empty_test(quant.domain), expr.b)\n                return (qb, qa)", "            if a and not b:\n                qa = Forall(var, quant.domain, expr.a) if va else Or(empty_test(quant.domain), expr.a)\n                qb = Or(empty_test(quant.domain), expr.b)\n                return (qb, qa)"),
    ('c10-not-identity', 'C10', R, "    if not expr.contains_reference(alias):\n        return (expr, true())", "    if not expr.contains_reference(alias):\n        return (true(), expr)"),
    ('c11-zip-not-product', 'C11', R, "    return [property.but(scope=scope, pattern=pattern) for scope in scopes for pattern in patterns]\n\n\n@typechecked\ndef _canonical_form_liveness", "    return [property.but(scope=scope, pattern=pattern) for scope, pattern in zip(scopes, patterns)]\n\n\n@typechecked\ndef _canonical_form_liveness"),
    ('c11-copy-when-unsplit', 'C11', R, "    if len(scopes) == 1 and len(patterns) == 1:\n        # nothing changed\n        return [property]\n    return [property.but(scope=scope, pattern=pattern) for scope in scopes for pattern in patterns]\n\n\n@typechecked\ndef _canonical_form_liveness", "    return [property.but(scope=scope, pattern=pattern) for scope in scopes for pattern in patterns]\n\n\n@typechecked\ndef _canonical_form_liveness"),
    ('c11-metadata-shared', 'C11', B, "        new = evolve(self, **kwargs)\n        assert new.metadata is not self.metadata\n        new.metadata.update(metadata)", "        new = evolve(self, **kwargs)\n        object.__setattr__(new, 'metadata', self.metadata)"),
    ('c12-split-existence', 'C12', R, "        patterns = [property.pattern]  # no splits", "        patterns = [property.pattern.but(behaviour=event) for event in property.pattern.behaviour.simple_events()]"),
    ('c12-split-response-behaviour', 'C12', R, "        patterns = [property.pattern.but(trigger=event) for event in trigger.simple_events()]", "        patterns = [property.pattern.but(trigger=event, behaviour=b) for event in trigger.simple_events() for b in property.pattern.behaviour.simple_events()]"),
    ('c12-bound-dropped', 'C12', R, "    patterns = [pattern.but(behaviour=event) for event in pattern.behaviour.simple_events()]", "    patterns = [pattern.but(behaviour=event, max_time=float('inf')) if len(list(pattern.behaviour.simple_events())) > 1 else pattern for event in pattern.behaviour.simple_events()]"),
    ('c13-truth-join-self', 'C13', PD, "    def join(self, other: HplPredicate):\n        return other", "    def join(self, other: HplPredicate):\n        return self"),
    ('c13-contradiction-join-other', 'C13', PD, "    def join(self, other: HplPredicate) -> HplPredicate:\n        return self\n\n    def external_references(self) -> Set[str]:\n        return set()\n\n    def contains_reference(self, _alias: str) -> bool:\n        return False\n\n    def contains_self_reference(self) -> bool:\n        return False\n\n    def replace_var_reference(self, _alias: str, _expr: HplExpression) -> HplPredicate:\n        return self\n\n    def replace_self_reference(self, _expr: HplExpression) -> HplPredicate:\n        return self\n\n    def type_check_references(\n        self,\n        this_msg: TypeToken,\n        variables: Optional[Mapping[str, TypeToken]] = None,\n    ):\n        pass\n\n    def __str__(self) -> str:\n        return '{ False }'", "    def join(self, other: HplPredicate) -> HplPredicate:\n        return other\n\n    def external_references(self) -> Set[str]:\n        return set()\n\n    def contains_reference(self, _alias: str) -> bool:\n        return False\n\n    def contains_self_reference(self) -> bool:\n        return False\n\n    def replace_var_reference(self, _alias: str, _expr: HplExpression) -> HplPredicate:\n        return self\n\n    def replace_self_reference(self, _expr: HplExpression) -> HplPredicate:\n        return self\n\n    def type_check_references(\n        self,\n        this_msg: TypeToken,\n        variables: Optional[Mapping[str, TypeToken]] = None,\n    ):\n        pass\n\n    def __str__(self) -> str:\n        return '{ False }'"),
    ('c13-any-variable-replaced', 'C13', E, "        return other if alias == self.name else self\n\n    def __str__(self) -> str:\n        return self.token", "        return other\n\n    def __str__(self) -> str:\n        return self.token"),
    ('c13-index-not-reshaped', 'C13', E, "            array: HplExpression = f(self.array.reshape(f, deep=True))\n            index: HplExpression = f(self.index.reshape(f, deep=True))", "            array: HplExpression = f(self.array.reshape(f, deep=True))\n            index: HplExpression = self.index"),
    ('c14-existence-empty', 'C14', R, "    if property.pattern.is_existence:\n        patterns = [property.pattern]  # no splits", "    if property.pattern.is_existence:\n        patterns = []  # no splits"),
    ('c14-max-guard', 'C14', R, "def _simplify_function_max(call: HplFunctionCall) -> HplExpression:\n    if len(call.arguments) == 1:", "def _simplify_function_max(call: HplFunctionCall) -> HplExpression:\n    if len(call.arguments) >= 1:"),
    ('c15-array-children', 'C15', E, "    def children(self) -> Tuple[HplExpression, HplExpression]:\n        return (self.array, self.index)", "    def children(self) -> Tuple[HplExpression, HplExpression]:\n        return (self.array,)"),
    ('c15-iterate-order', 'C15', B, "            stack.extend(reversed(obj.children()))", "            stack.extend(obj.children())"),
    ('c15-aliases-reversed', 'C15', EV, "        return self.event1.aliases() + self.event2.aliases()", "        return self.event2.aliases() + self.event1.aliases()"),
    ('c15-quantifier-domain-forgotten', 'C15', E, "        refs = self.domain.external_references()\n        refs |= self.condition.external_references()", "        refs = set()\n        refs |= self.condition.external_references()"),
    ('c16-cast-in-place', 'C16', E, "            return self if r == self.data_type else self.but(data_type=r)", "            object.__setattr__(self, 'data_type', r)\n            return self"),
    ('c16-metadata-shared', 'C16', B, "        new = evolve(self, **kwargs)\n        assert new.metadata is not self.metadata\n        new.metadata.update(metadata)", "        new = evolve(self, **kwargs)\n        object.__setattr__(new, 'metadata', self.metadata)"),
    ('c17-contains-index', 'C17', T, "return self.length < 0 or self.length > index", "return self.length < 0 or self.length >= index"),
    ('c17-int16', 'C17', T, "        min_value = -32768\n        max_value = 32767", "        min_value = -32768\n        max_value = 32768"),
    ('c17-ranged-validator', 'C17', T, "        if value < self.min_value:\n            raise ValueError", "        if value < 0 and value < self.min_value:\n            raise ValueError"),
    ('c18-duplicates-kept', 'C18', P, "        if dup is not None:\n            raise HplSyntaxError.duplicate_metadata(dup, pid=pid)", "        pass"),
    ('c18-reversed', 'C18', P, "        return HplSpecification(tuple(children))", "        return HplSpecification(tuple(children)[::-1])"),
    ('c18-metadata-to-next', 'C18', P, "        hpl_property = HplProperty(scope, pattern)\n        hpl_property.metadata.update(metadata)", "        hpl_property = HplProperty(scope, pattern)\n        hpl_property.metadata.update(getattr(self, '_pending', {}))\n        self._pending = metadata"),
    ('c19-nan-not-null', 'C19', C, "    if isinstance(value, float) and (isinf(value) or isnan(value)):", "    if isinstance(value, float) and isinf(value):"),
    ('c19-exit-zero', 'C19', C, "        print(err)\n        print_exc()\n        return 1", "        print(err)\n        print_exc()\n        return 0"),
    ('c19-syntax-error-exit', 'C19', C, "        print(hse, file=sys.stderr)\n        return 1", "        print(hse, file=sys.stderr)\n        return 2"),
    ('c20-cast-union', 'C20', T, "        r = self & t\n        if not r:", "        r = self | t\n        if not (self & t):"),
    ('c20-item-without-message', 'C20', T, "    ITEM = BOOL | NUMBER | STRING | MESSAGE", "    ITEM = BOOL | NUMBER | STRING"),
]


def run(name, target, path, old, new):
    wt = f'/tmp/sens_{name}'
    subprocess.run(['git', '-C', '/repo', 'worktree', 'remove', '--force', wt], capture_output=True)
    subprocess.check_call(['git', '-C', '/repo', 'worktree', 'add', '-q', '--detach', wt, 'HEAD'])
    try:
        f = os.path.join(wt, path)
        s = open(f).read()
        if s.count(old) != 1:
            return name, target, 'PATTERN-NOT-FOUND', '-'
        open(f, 'w').write(s.replace(old, new))
        env = dict(os.environ, PYTHONPATH=wt + '/src', PYTHONHASHSEED='0')
        t = subprocess.run(['/venv/bin/python', '-m', 'pytest', '-q', '-p', 'no:cacheprovider', '-x'], cwd=wt, env=env, capture_output=True, text=True)
        tests = 'tests-pass' if t.returncode == 0 else 'tests-fail'
        c = subprocess.run(['/venv/bin/python', '-m', 'hplverif.run', target], cwd='/verif', env=dict(os.environ, HPL_REPO_DIR=wt), capture_output=True, text=True)
        diff = subprocess.run(['git', '-C', wt, 'diff'], capture_output=True, text=True).stdout
        os.makedirs('/verif/sensitivity/patches', exist_ok=True)
        open(f'/verif/sensitivity/patches/{name}.diff', 'w').write(diff)
        return name, target, tests, {0: 'MISSED', 1: 'detected', 2: 'harness-error'}.get(c.returncode, str(c.returncode))
    finally:
        subprocess.run(['git', '-C', '/repo', 'worktree', 'remove', '--force', wt], capture_output=True)


if __name__ == '__main__':
    from concurrent.futures import ThreadPoolExecutor

    sel = [m for m in MUTANTS if not sys.argv[1:] or m[0] in sys.argv[1:]]
    with ThreadPoolExecutor(int(os.environ.get('JOBS', '6'))) as ex:
        results = list(ex.map(lambda m: run(*m), sel))
    with open('/verif/sensitivity/results.tsv', 'a' if sys.argv[1:] else 'w') as f:
        for r in results:
            f.write('\t'.join(r) + '\n')
            print('\t'.join(r))
