# MANIFEST.setup_cmd: verify that everything the checks need is importable,
# offline; install hypothesis from the local wheelhouse only if it is missing.
import os
import subprocess
import sys

from hplverif import core


def main():
    try:
        import hypothesis  # noqa
    except ImportError:
        deps = os.path.join(core.VERIF_DIR, '.deps')
        os.makedirs(deps, exist_ok=True)
        subprocess.check_call(
            [sys.executable, '-m', 'pip', 'install', '--no-index', '--find-links', '/opt/veriftools/wheels', '--target', deps, 'hypothesis']
        )
    deps = os.path.join(core.VERIF_DIR, '.deps')
    if not os.path.isdir(os.path.join(deps, 'atheris')):
        # optional: only the thorough tier of C07 uses it; its absence is not an error
        os.makedirs(deps, exist_ok=True)
        subprocess.call(
            [sys.executable, '-m', 'pip', 'install', '-q', '--no-index', '--find-links', '/opt/veriftools/wheels', '--target', deps, 'atheris'],
            stdout=subprocess.DEVNULL, stderr=subprocess.DEVNULL,
        )  # fmt: skip
    core.bootstrap('hplverif.setup')
    import hpl
    import hypothesis
    import lark

    print(f'hpl from {os.path.dirname(hpl.__file__)}; hypothesis {hypothesis.__version__}; lark {lark.__version__}')
    return 0


if __name__ == '__main__':
    sys.exit(main())
