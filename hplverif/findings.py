# Named matchers for known findings (see /verif/known_findings.json).
# Each takes a core.Violation and says whether it is that listed finding.
