# Named matchers for known findings (see /verif/known_findings.json).
# Each takes a core.Violation and says whether it is that listed finding.

from hplverif import core, mast


def _aliases_of(ev):
    return [e[2] for e in mast.simple_events(ev) if e[2] is not None]


def _refs_of(ev):
    out = set()
    for e in mast.simple_events(ev):
        if e[3] is not None:
            out |= mast.free_vars(e[3]) - ({e[2]} if e[2] else set())
    return out


def partial_alias_shape(prop):
    """Is prop a property in which a split position is a disjunction where some but not all
    alternatives bind an alias that another event references? (finding F13)"""
    _, _meta, sc, pt = prop
    split = [sc[2]] if sc[1] in ('after', 'after_until') else []
    kind = pt[1]
    if kind in ('absence', 'requirement', 'prevention'):
        split.append(pt[3])
    elif kind == 'response':
        split.append(pt[2])
    others = [e for _role, e in mast.event_positions(prop)]
    for pos in split:
        if pos is None or pos[0] != 'disj':
            continue
        alts = mast.simple_events(pos)
        bound = [a[2] for a in alts if a[2] is not None]
        for x in set(bound):
            if sum(1 for a in alts if a[2] == x) < len(alts):
                for o in others:
                    if o is not pos and x in _refs_of(o):
                        return True
    return False


def f13_partial_alias(v):
    if 'canonical_form' not in v.sig or 'HplSanityError' not in v.sig:
        return False
    inp = v.input
    m = inp.get('m') if isinstance(inp, dict) else None
    if m is None:
        return False
    return partial_alias_shape(core.detuple(m))


def f16_alias_captured(v):
    """An event whose own alias is also the variable of a quantifier inside its predicate (finding F16)."""
    inp = v.input
    m = inp.get('m') if isinstance(inp, dict) else None
    if m is None:
        return False
    m = core.detuple(m)
    for _role, ev in mast.event_positions(m):
        for e in mast.simple_events(ev):
            if e[2] is not None and e[3] is not None:
                if any(n[0] == 'q' and n[2] == e[2] for n in mast.walk(e[3])):
                    return True
    return False


def f12_sibling_binders(v):
    """Two quantifiers that are not nested in one another bind the same name over domains of different element types (finding F12)."""
    inp = v.input
    if not isinstance(inp, dict) or 'rejected:type' not in v.sig:
        return False
    m = inp.get('m')
    if m is None:
        return False
    m = core.detuple(m)
    conds = []
    if m[0] == 'prop':
        for _role, ev in mast.event_positions(m):
            for e in mast.simple_events(ev):
                if e[3] is not None:
                    conds.append(e[3])
    else:
        conds.append(m)
    for c in conds:
        binders = {}
        for n in mast.walk(c):
            if n[0] == 'q':
                binders.setdefault(n[2], []).append(n)
        for name, qs in binders.items():
            if len(qs) >= 2 and len({_dom_kind(q) for q in qs}) >= 2:
                return True
    return False


def _dom_kind(q):
    """Coarse element type of a quantifier: from how the bound variable is used in its body."""
    var = ('var', q[2])
    body = q[4]
    kinds = set()
    for n in mast.walk(body):
        if n[0] == 'bin' and (n[2] == var or n[3] == var):
            other = n[3] if n[2] == var else n[2]
            if n[1] in ('<', '<=', '>', '>=', '+', '-', '*', '/', '**'):
                kinds.add('N')
            elif n[1] in ('and', 'or', 'implies', 'iff'):
                kinds.add('B')
            elif other[0] == 'lit':
                kinds.add({'int': 'N', 'float': 'N', 'str': 'S', 'bool': 'B'}[other[1]])
            elif n[1] == 'in' and n[2] == var and n[3][0] == 'set' and n[3][1] and n[3][1][0][0] == 'lit':
                kinds.add({'int': 'N', 'float': 'N', 'str': 'S', 'bool': 'B'}[n[3][1][0][1]])
        if n[0] == 'un' and n[2] == var:
            kinds.add('B' if n[1] == 'not' else 'N')
        if n[0] == 'call' and n[2] == var and n[1] == 'abs':
            kinds.add('N')
    if body == var:
        kinds.add('B')
    d = q[3]
    if d[0] == 'range':
        kinds.add('N')
    if d[0] == 'set' and d[1] and d[1][0][0] == 'lit':
        kinds.add({'int': 'N', 'float': 'N', 'str': 'S', 'bool': 'B'}[d[1][0][1]])
    return ''.join(sorted(kinds)) or '?' + repr(d)


import re as _re

_F23_CALL = _re.compile(r'\b(?:roll|pitch|yaw)\s*\(\s*@([A-Za-z_]\w*)\s*\)')


def bare_own_alias_shape(text):
    """Does the text apply roll / pitch / yaw to an alias that some event of the text binds (`t as A {... roll(@A) ...}`)?"""
    names = set(_F23_CALL.findall(text))
    return any(_re.search(r'\bas\s+' + _re.escape(n) + r'\b', text) for n in names)


def f23_bare_own_alias(v):
    """The current message used as a bare value (only possible through the event's own alias, as the argument of
    roll / pitch / yaw) has no printed form: str() gives `roll()`, which does not parse (finding F23)."""
    if 'print-not-parsable' not in v.sig:
        return False
    inp = v.input
    return isinstance(inp, dict) and isinstance(inp.get('text'), str) and bare_own_alias_shape(inp['text'])


_F24_WORDS = ('E', 'False', 'INF', 'NAN', 'PI', 'True', 'exists', 'forall', 'not')
_F24_AS = _re.compile(r'\bas\s+([A-Za-z_]\w*)\s*\{')


def own_alias_keyword_field_shape(text):
    """Does some event of the text read, through its OWN alias, a field named like a constant or a prefix keyword
    (`t as A { ... @A.E ... }`, also `@A.not`, `@A.True.x`)? Only the braces of the event that binds the alias count."""
    for m in _F24_AS.finditer(text):
        alias = m.group(1)
        depth, i, in_str = 1, m.end(), False
        while i < len(text) and depth:
            c = text[i]
            if in_str:
                if c == '\\':
                    i += 1
                elif c == '"':
                    in_str = False
            elif c == '"':
                in_str = True
            elif c == '{':
                depth += 1
            elif c == '}':
                depth -= 1
            i += 1
        body = text[m.end():i]
        if _re.search(r'@' + _re.escape(alias) + r'\s*\.\s*(?:' + '|'.join(_F24_WORDS) + r')\b', body):
            return True
    return False


def f24_own_alias_keyword_field(v):
    """A field named like a constant (PI, E, INF, NAN, True, False) or like a keyword that may start an expression
    (not, forall, exists) can only be written behind a reference (`@A.E`); when @A is the event's own alias the
    reference is rewritten to the bare own field, whose printed form `E` is the constant / keyword itself: the printed
    text parses to another AST or not at all (finding F24)."""
    if not any(k in v.sig for k in ('print-not-parsable', 'reparse-differs')):
        return False
    inp = v.input
    return isinstance(inp, dict) and isinstance(inp.get('text'), str) and own_alias_keyword_field_shape(inp['text'])
