# Generators (Hypothesis strategies) over model trees.
#
#   schemas()            message schemas
#   G-typed:  typed_term(env, T, depth)  type-directed, schema-consistent terms
#   G-syn:    the same generator with chaos > 0 (type discipline dropped at random positions)
#   events / scopes / patterns / properties / specifications
#
# Schema field types (ftype):
#   ('bool',) ('num', token) ('str',) ('arr', elem_ftype, length) ('msg', schema)
# schema = {'fields': {name: ftype}, 'consts': {name: (ftype, value)}}

from hypothesis import strategies as st

from hplverif import mast
from hplverif.mast import FALSE, TRUE, binop, own

NUM_TOKENS = ('uint8', 'uint16', 'uint32', 'uint64', 'int8', 'int16', 'int32', 'int64', 'float32', 'float64')

NEUTRAL_FIELDS = ('x', 'y', 'z', 'w', 'p', 'q', 'r', 'data', 'value', 'vel', 'count', 'name', 'flag', 'u', 'v2')
KW_FIELDS = (
    'notes', 'index', 'Enabled', 'E1', 'PIx', 'forall_x', 'existsx', 'orb', 'android', 'iffy', 'tom', 'inside',
    'nob', 'Truex', 'INFx', 'asx', 'intx', 'nothing', 'somex', 'untilx', 'sx', 'msx', 'Falsey', 'NANO', 'impliesx',
)  # fmt: skip
ALIASES = ('A', 'B', 'C', 'M1', 'first', 'assert', 'Within', 'Ex', 'nox', 'orig', 'asA')
QVARS = ('i', 'j', 'k', 'e1x', 'item', 'inx', 'tox', 'n0')
TOPICS = (
    'a', 'b', 'c', 'd', 'e1', 'p', 'q', 't1', 'node', 'nothing', 'something', 'no/de', 'some/x', 'untilx',
    '/ns/topic', '~priv', '/a/b_c', 'android', 'as1', 'withinx', 'causesx', 'globally1', 'orb', 'afterx',
)  # fmt: skip

STR_LITS = ('"a"', '"b"', '""', '"a\\"b"', '"#"', '"x y"', '"not"', '"{1}"')
INT_LITS = ('0', '1', '2', '3', '10', '7')
FLOAT_LITS = ('0.5', '3.5', '1.', '.5', '1e3', '2.5e-3', '0.0', '1.0', '2.25')

NUM_FUNCS_N = ('abs', 'int', 'float', 'sqrt', 'ceil', 'floor', 'sin', 'cos', 'tan', 'asin', 'acos', 'atan', 'deg', 'rad')
AGG_FUNCS = ('len', 'sum', 'prod', 'max', 'min', 'gcd')
MSG_FUNCS = ('roll', 'pitch', 'yaw')

PRIM = ('B', 'N', 'S')


def prim_code(ft):
    return {'bool': 'B', 'num': 'N', 'str': 'S'}.get(ft[0])


def prim_ftype(T):
    return {'B': ('bool',), 'N': ('num', 'float64'), 'S': ('str',)}[T]


###############################################################################
# Schemas
###############################################################################


@st.composite
def ftypes(draw, depth):
    kinds = ['bool', 'num', 'num', 'str', 'arr', 'arr']
    if depth > 0:
        kinds += ['msg', 'arrmsg']
    k = draw(st.sampled_from(kinds))
    if k == 'bool':
        return ('bool',)
    if k == 'num':
        return ('num', draw(st.sampled_from(NUM_TOKENS)))
    if k == 'str':
        return ('str',)
    if k == 'arr':
        elem = draw(st.sampled_from([('bool',), ('num', 'int32'), ('num', 'float64'), ('str',)]))
        return ('arr', elem, draw(st.sampled_from([-1, -1, 1, 2, 3])))
    sub = draw(schemas(depth=depth - 1, small=True))
    if k == 'msg':
        return ('msg', sub)
    return ('arr', ('msg', sub), draw(st.sampled_from([-1, 2, 3])))


@st.composite
def schemas(draw, depth=2, small=False):
    n_extra = draw(st.integers(0, 2 if small else 4))
    pool = NEUTRAL_FIELDS + KW_FIELDS
    names = draw(st.lists(st.sampled_from(pool), min_size=5 + n_extra, max_size=5 + n_extra, unique=True))
    base = [('bool',), ('num', draw(st.sampled_from(NUM_TOKENS))), ('num', 'float64'), ('str',), ('arr', ('num', 'int32'), -1)]
    if small:
        base = base[: draw(st.integers(2, 5))]
        names = names[: len(base) + n_extra]
    fields = {}
    for name, ft in zip(names, base):
        fields[name] = ft
    for name in names[len(base) :]:
        fields[name] = draw(ftypes(depth))
    consts = {}
    if draw(st.integers(0, 3)) == 0:
        cname = draw(st.sampled_from(('K', 'MAXV', 'NOTE', 'E2')))
        if cname not in fields:
            which = draw(st.sampled_from(['num', 'str', 'bool']))
            if which == 'num':
                consts[cname] = (('num', 'uint8'), draw(st.sampled_from([0, 1, 2])))
            elif which == 'str':
                consts[cname] = (('str',), draw(st.sampled_from(['"a"', '"b"'])))
            else:
                consts[cname] = (('bool',), draw(st.booleans()))
    return {'fields': fields, 'consts': consts}


def schema_paths(schema, maxdepth=3):
    """All access paths of a schema: list of (steps, ftype); step = ('f', name) | ('i', length)."""
    out = []

    def rec(sc, prefix, d):
        items = list(sc['fields'].items()) + [(n, ft) for n, (ft, _v) in sc['consts'].items()]
        for name, ft in items:
            steps = prefix + (('f', name),)
            add(steps, ft, d)

    def add(steps, ft, d):
        out.append((steps, ft))
        if d <= 0:
            return
        if ft[0] == 'msg':
            rec(ft[1], steps, d - 1)
        elif ft[0] == 'arr':
            add(steps + (('i', ft[2]),), ft[1], d - 1)

    rec(schema, (), maxdepth)
    return out


def want_matches(ft, want):
    """want: 'B'|'N'|'S' primitive, 'AB'|'AN'|'AS' array of primitive, 'AM', 'M'."""
    if want in PRIM:
        return prim_code(ft) == want
    if want == 'M':
        return ft[0] == 'msg'
    if want == 'AM':
        return ft[0] == 'arr' and ft[1][0] == 'msg'
    if want[0] == 'A':
        return ft[0] == 'arr' and prim_code(ft[1]) == want[1]
    return False


###############################################################################
# Environment
###############################################################################


class Env:
    """What references are available at a position.

    this:    schema of the current message, or None
    aliases: {alias: schema} of earlier events
    qvars:   {name: 'B'|'N'|'S'} quantified variables in scope
    chaos:   probability weight (0..100) of dropping the type discipline at a position (G-syn)
    """

    def __init__(self, this=None, aliases=None, qvars=None, chaos=0, reserved=()):
        self.this = this
        self.aliases = dict(aliases or {})
        self.qvars = dict(qvars or {})
        self.chaos = chaos
        self.reserved = set(reserved)  # names a quantifier must not bind (aliases in the property)
        self._paths = {}

    def with_qvar(self, name, T):
        e = Env(self.this, self.aliases, dict(self.qvars, **{name: T}), self.chaos, self.reserved)
        e._paths = self._paths
        return e

    def paths(self, key):
        if key not in self._paths:
            sc = self.this if key is None else self.aliases[key]
            self._paths[key] = schema_paths(sc) if sc is not None else []
        return self._paths[key]

    def candidates(self, want):
        out = []
        for key in [None] + sorted(self.aliases):
            if key is None and self.this is None:
                continue
            for steps, ft in self.paths(key):
                if want_matches(ft, want):
                    out.append((key, steps))
        return out


###############################################################################
# Terms
###############################################################################


def _lit(T):
    if T == 'B':
        return st.sampled_from([TRUE, FALSE])
    if T == 'S':
        return st.sampled_from([('lit', 'str', s) for s in STR_LITS])
    return st.one_of(
        st.sampled_from([('lit', 'int', s) for s in INT_LITS]),
        st.sampled_from([('lit', 'int', s) for s in INT_LITS]),
        st.sampled_from([('lit', 'float', s) for s in FLOAT_LITS]),
    )


@st.composite
def ref_term(draw, env, want, depth):
    """A reference of the wanted type, or None when the environment has none."""
    cands = env.candidates(want)
    qv = [n for n, T in env.qvars.items() if T == want]
    if not cands and not qv:
        return None
    if qv and (not cands or draw(st.integers(0, 2)) == 0):
        return ('var', draw(st.sampled_from(sorted(qv))))
    key, steps = draw(st.sampled_from(cands))
    node = ('this',) if key is None else ('var', key)
    for step in steps:
        if step[0] == 'f':
            node = ('field', node, step[1])
        else:
            length = step[1]
            if length >= 0 or depth <= 0 or draw(st.integers(0, 2)) > 0:
                hi = (length - 1) if length >= 0 else 2
                idx = ('lit', 'int', str(draw(st.integers(0, max(hi, 0)))))
            else:
                idx = draw(typed_term(env, 'N', min(depth - 1, 1)))
            node = ('index', node, idx)
    return node


@st.composite
def any_term(draw, env, depth):
    """A term of a random kind (used by chaos and by G-syn positions)."""
    kind = draw(st.sampled_from(['B', 'N', 'S', 'SET', 'RANGE', 'ARR', 'MSG', 'B', 'N']))
    if kind in PRIM:
        return draw(typed_term(env, kind, depth))
    if kind == 'SET':
        return draw(set_lit(env, draw(st.sampled_from(PRIM)), depth))
    if kind == 'RANGE':
        return draw(range_lit(env, depth))
    if kind == 'ARR':
        r = draw(ref_term(env, draw(st.sampled_from(['AN', 'AB', 'AS', 'AM'])), depth))
        return r if r is not None else own('xs')
    r = draw(ref_term(env, 'M', depth))
    return r if r is not None else own('m')


@st.composite
def set_lit(draw, env, T, depth):
    n = draw(st.integers(1, 3))
    return ('set', tuple(draw(typed_term(env, T, max(depth - 1, 0))) for _ in range(n)))


@st.composite
def range_lit(draw, env, depth):
    lo = draw(typed_term(env, 'N', max(depth - 1, 0)))
    hi = draw(typed_term(env, 'N', max(depth - 1, 0)))
    return ('range', lo, hi, draw(st.booleans()), draw(st.booleans()))


@st.composite
def compound(draw, env, T, depth):
    """A compound value with elements of primitive type T: array reference, set or range literal."""
    opts = ['set']
    if T == 'N':
        opts += ['range', 'range']
    arr = draw(ref_term(env, 'A' + T, depth))
    if arr is not None:
        opts += ['arr', 'arr']
    k = draw(st.sampled_from(opts))
    if k == 'arr':
        return arr
    if k == 'range':
        return draw(range_lit(env, depth))
    return draw(set_lit(env, T, depth))


def _fresh_qvar(draw, env):
    used = set(env.qvars) | set(env.aliases) | env.reserved
    free = [v for v in QVARS if v not in used]
    return draw(st.sampled_from(free)) if free else None


@st.composite
def atom_using(draw, env, var, T, depth):
    """A boolean atom that uses @var (of primitive type T)."""
    v = ('var', var)
    if T == 'B':
        k = draw(st.integers(0, 3))
        if k == 0:
            return v
        if k == 1:
            return ('un', 'not', v)
        other = draw(typed_term(env, 'B', max(depth - 1, 0)))
        return binop(draw(st.sampled_from(['=', '!=', 'implies', 'or'])), v, other)
    if T == 'S':
        k = draw(st.integers(0, 2))
        other = draw(typed_term(env, 'S', max(depth - 1, 0)))
        if k == 0:
            return binop(draw(st.sampled_from(['=', '!='])), v, other)
        if k == 1:
            return binop('=', other, v)
        return binop('in', v, draw(set_lit(env, 'S', max(depth - 1, 0))))
    k = draw(st.integers(0, 4))
    other = draw(typed_term(env, 'N', max(depth - 1, 0)))
    if k == 0:
        return binop(draw(st.sampled_from(['<', '<=', '>', '>=', '=', '!='])), v, other)
    if k == 1:
        return binop(draw(st.sampled_from(['<', '>=', '='])), other, v)
    if k == 2:
        return binop('in', v, draw(compound(env, 'N', max(depth - 1, 0))))
    if k == 3:
        return binop(draw(st.sampled_from(['<', '>'])), binop(draw(st.sampled_from(['+', '-', '*'])), v, other), draw(_lit('N')))
    return binop('>', ('call', 'abs', v), other)


@st.composite
def quantifier(draw, env, depth):
    var = _fresh_qvar(draw, env)
    if var is None:
        return None
    T = draw(st.sampled_from(['N', 'N', 'B', 'S']))
    # the domain must not mention the variable, not even bound by a quantifier of its own
    outer = Env(env.this, env.aliases, env.qvars, env.chaos, env.reserved | {var})
    outer._paths = env._paths
    dom = draw(compound(outer, T, max(depth - 1, 0)))
    inner = env.with_qvar(var, T)
    core = draw(atom_using(inner, var, T, max(depth - 1, 0)))
    k = draw(st.integers(0, 5))
    if k <= 2 or depth <= 1:
        body = core
    else:
        other = draw(typed_term(inner, 'B', max(depth - 2, 0)))
        if k == 3:
            body = binop('and', core, other)
        elif k == 4:
            body = binop('implies', other, core)
        else:
            body = binop(draw(st.sampled_from(['or', 'and', 'iff'])), other, core)
    return ('q', draw(st.sampled_from(['forall', 'exists'])), var, dom, body)


@st.composite
def typed_term(draw, env, T, depth):
    """A term of primitive type T in {'B','N','S'}, consistent with env's schemas."""
    if env.chaos and draw(st.integers(0, 99)) < env.chaos:
        return draw(any_term(Env(env.this, env.aliases, env.qvars, env.chaos // 2, env.reserved), max(depth - 1, 0)))
    if depth <= 0:
        r = draw(ref_term(env, T, 0))
        if r is not None and draw(st.integers(0, 3)) > 0:
            return r
        if T == 'B' and draw(st.integers(0, 3)) > 0:
            # avoid drowning boolean positions in True/False
            l = draw(ref_term(env, 'N', 0)) or draw(_lit('N'))
            return binop(draw(st.sampled_from(['<', '>', '=', '>=', '<=', '!='])), l, draw(_lit('N')))
        return draw(_lit(T))
    d = depth - 1
    if T == 'B':
        k = draw(st.integers(0, 15))
        if k <= 1:
            return draw(typed_term(env, 'B', 0))
        if k == 2:
            return ('un', 'not', draw(typed_term(env, 'B', d)))
        if k <= 6:
            op = draw(st.sampled_from(['and', 'and', 'or', 'or', 'implies', 'iff']))
            return binop(op, draw(typed_term(env, 'B', d)), draw(typed_term(env, 'B', d)))
        if k <= 8:
            op = draw(st.sampled_from(['<', '<=', '>', '>=']))
            return binop(op, draw(typed_term(env, 'N', d)), draw(typed_term(env, 'N', d)))
        if k <= 10:
            P = draw(st.sampled_from(['N', 'N', 'S', 'B']))
            op = draw(st.sampled_from(['=', '!=']))
            return binop(op, draw(typed_term(env, P, d)), draw(typed_term(env, P, d)))
        if k == 11:
            P = draw(st.sampled_from(['N', 'N', 'S', 'B']))
            return binop('in', draw(typed_term(env, P, d)), draw(compound(env, P, d)))
        if k <= 13:
            q = draw(quantifier(env, depth))
            if q is not None:
                return q
            return draw(typed_term(env, 'B', 0))
        if k == 14:
            return ('call', 'bool', draw(typed_term(env, draw(st.sampled_from(PRIM)), d)))
        return draw(typed_term(env, 'B', 0))
    if T == 'N':
        k = draw(st.integers(0, 13))
        if k <= 2:
            return draw(typed_term(env, 'N', 0))
        if k == 3:
            return ('un', '-', draw(typed_term(env, 'N', d)))
        if k <= 8:
            op = draw(st.sampled_from(['+', '+', '-', '-', '*', '*', '/', '**']))
            return binop(op, draw(typed_term(env, 'N', d)), draw(typed_term(env, 'N', d)))
        if k == 9:
            return ('const', draw(st.sampled_from(['PI', 'E', 'PI', 'E', 'INF', 'NAN'])))
        if k == 10:
            f = draw(st.sampled_from(NUM_FUNCS_N))
            if f in ('int', 'float') and draw(st.integers(0, 3)) == 0:
                return ('call', f, draw(typed_term(env, draw(st.sampled_from(['B', 'S'])), d)))
            return ('call', f, draw(typed_term(env, 'N', d)))
        if k <= 12:
            f = draw(st.sampled_from(AGG_FUNCS))
            if f == 'len':
                P = draw(st.sampled_from(PRIM))
                return ('call', f, draw(compound(env, P, d)))
            return ('call', f, draw(compound(env, 'N', d)))
        m = draw(ref_term(env, 'M', d))
        if m is not None and draw(st.integers(0, 2)) == 0:
            return ('call', draw(st.sampled_from(MSG_FUNCS)), m)
        return draw(typed_term(env, 'N', 0))
    # strings
    k = draw(st.integers(0, 4))
    if k <= 3:
        return draw(typed_term(env, 'S', 0))
    return ('call', 'str', draw(typed_term(env, draw(st.sampled_from(PRIM)), d)))


def uses_this(e):
    return mast.has_this(e)


@st.composite
def predicate_term(draw, env, depth, need_this=True):
    """A boolean condition for an event predicate; references the current message."""
    e = draw(typed_term(env, 'B', depth))
    if e in (TRUE, FALSE):
        return e
    if need_this and env.this is not None and not uses_this(e):
        anchor = draw(ref_term(Env(env.this, chaos=0), 'B', 0))
        if anchor is None:
            n = draw(ref_term(Env(env.this, chaos=0), 'N', 0))
            anchor = binop('>=', n, ('lit', 'int', '0')) if n is not None else None
        if anchor is not None:
            e = binop(draw(st.sampled_from(['and', 'or'])), anchor, e) if draw(st.booleans()) else binop('and', e, anchor)
    return e


###############################################################################
# Layouts
###############################################################################


@st.composite
def layouts(draw):
    mode = draw(st.integers(0, 5))
    if mode == 0:
        return mast.Layout()
    seps = draw(st.lists(st.integers(0, 9), min_size=1, max_size=12)) if mode >= 2 else ()
    extra = ()
    if mode >= 3:
        extra = draw(st.lists(st.sampled_from([0, 0, 0, 1, 0, 2]), min_size=1, max_size=7))
    return mast.Layout(seps=seps, extra=extra, full=(mode in (1, 5)))


###############################################################################
# Events, scopes, patterns, properties
###############################################################################

SCOPES = ('globally', 'after', 'until', 'after_until')
PATTERNS = ('existence', 'absence', 'response', 'prevention', 'requirement')

TIME_NUMS = ('1', '2', '10', '100', '0.5', '3.5', '1.', '.5', '1e3', '2.5e-3', '0', '0.001', '250', '1e-3')


@st.composite
def time_bounds(draw, wild=False):
    if draw(st.integers(0, 2)) == 0:
        return None
    if wild and draw(st.booleans()):
        v = draw(st.floats(min_value=0.0, max_value=1e308, allow_nan=False, allow_infinity=False))
        return (repr(v), draw(st.sampled_from(['s', 'ms'])))
    return (draw(st.sampled_from(TIME_NUMS)), draw(st.sampled_from(['s', 'ms'])))


class PropCtx:
    """Book-keeping while a property is generated: topics, schemas and alias scoping."""

    def __init__(self, topic_schemas, chaos=0):
        self.topic_schemas = topic_schemas  # {topic: schema}
        self.alias_schema = {}  # alias -> schema (of the topic it is bound on)
        self.chaos = chaos
        self.all_aliases = set()


@st.composite
def simple_event(draw, pc, topic, visible, depth, alias=None, pred_prob=3):
    """('ev', topic, alias, pred). visible: aliases that may be referenced here."""
    schema = pc.topic_schemas[topic]
    pred = None
    if draw(st.integers(0, pred_prob)) > 0:
        aliases = {a: pc.alias_schema[a] for a in visible}
        if alias is not None and draw(st.integers(0, 3)) == 0:
            aliases[alias] = schema  # the event's own alias may be used too
        env = Env(schema, aliases, chaos=pc.chaos, reserved=pc.all_aliases)
        pred = draw(predicate_term(env, depth))
    return ('ev', topic, alias, pred)


@st.composite
def any_event(draw, pc, topics, visible, depth, width=None, alias_prob=2, taken=()):
    """A simple event or a disjunction over distinct topics. Returns (event, aliases bound by all alternatives)."""
    if width is None:
        width = draw(st.sampled_from([1, 1, 1, 2, 2, 3, 4]))
    width = min(width, len(topics))
    chosen = draw(st.lists(st.sampled_from(sorted(topics)), min_size=width, max_size=width, unique=True))
    evs = []
    bound = []
    free_aliases = [a for a in ALIASES if a not in pc.all_aliases and a not in taken]
    for t in chosen:
        alias = None
        if free_aliases and draw(st.integers(0, alias_prob)) == 0:
            alias = draw(st.sampled_from(free_aliases))
            free_aliases.remove(alias)
            pc.all_aliases.add(alias)
            pc.alias_schema[alias] = pc.topic_schemas[t]
            bound.append(alias)
        evs.append(draw(simple_event(pc, t, visible, depth, alias=alias)))
    if width == 1:
        return evs[0], tuple(bound)
    # only an alias bound by every alternative is safely visible later; with
    # distinct names per alternative that never happens, so a disjunction
    # exports nothing in the main family (F13 family is generated separately)
    return ('disj', tuple(evs)), ()


@st.composite
def properties(draw, depth=3, chaos=0, wild_time=False, max_width=4, meta=True, schemas_out=None):
    """A sanity-correct property with schema-consistent predicates.

    Returns (prop, info) with info = {'topics': {topic: schema}, 'aliases': {alias: topic-schema}}.
    """
    ntopics = draw(st.integers(2, 6))
    topics = draw(st.lists(st.sampled_from(TOPICS), min_size=ntopics, max_size=ntopics, unique=True))
    topic_schemas = {t: draw(schemas(depth=1, small=True)) for t in topics}
    pc = PropCtx(topic_schemas, chaos=chaos)
    sk = draw(st.sampled_from(SCOPES))
    pk = draw(st.sampled_from(PATTERNS))
    widths = st.sampled_from([w for w in [1, 1, 1, 2, 2, 3, 4] if w <= max_width])
    act = term = trig = None
    act_aliases = ()
    if sk in ('after', 'after_until'):
        act, act_aliases = draw(any_event(pc, topics, (), depth, width=draw(widths)))
    if pk in ('existence', 'absence'):
        beh, _ = draw(any_event(pc, topics, act_aliases, depth, width=draw(widths)))
    elif pk == 'requirement':
        beh, b_al = draw(any_event(pc, topics, act_aliases, depth, width=draw(widths)))
        trig, _ = draw(any_event(pc, topics, act_aliases + b_al, depth, width=draw(widths)))
    else:
        trig, t_al = draw(any_event(pc, topics, act_aliases, depth, width=draw(widths)))
        beh, _ = draw(any_event(pc, topics, act_aliases + t_al, depth, width=draw(widths)))
    if sk in ('until', 'after_until'):
        term, _ = draw(any_event(pc, topics, act_aliases, depth, width=draw(widths)))
    bound = draw(time_bounds(wild=wild_time))
    md = ()
    if meta:
        keys = draw(st.lists(st.sampled_from(['id', 'title', 'description']), unique=True, max_size=3))
        vals = {
            'id': st.sampled_from(['p1', 'prop_2', 'notes', 'id', 'P3x']),
            'title': st.sampled_from(['"A title"', '"t"', '""', '"with # hash"', '"say \\"hi\\""']),
            'description': st.sampled_from(['"Some text."', '"d"', '"globally: no a"', '"line\\nbreak"']),
        }
        md = tuple((k, draw(vals[k])) for k in keys)
    prop = ('prop', md, ('scope', sk, act, term), ('pat', pk, trig, beh, bound))
    info = {'topics': topic_schemas, 'aliases': dict(pc.alias_schema)}
    return prop, info


@st.composite
def standalone_predicates(draw, depth=4, chaos=0):
    """(condition, schema, alias schemas) for predicate/expression entry points."""
    schema = draw(schemas(depth=2))
    aliases = {}
    for a in draw(st.lists(st.sampled_from(ALIASES[:5]), max_size=2, unique=True)):
        aliases[a] = draw(schemas(depth=1, small=True))
    env = Env(schema, aliases, chaos=chaos, reserved=set(aliases))
    e = draw(predicate_term(env, depth, need_this=False))
    return e, schema, aliases


@st.composite
def standalone_terms(draw, depth=4, chaos=0, T=None):
    schema = draw(schemas(depth=2))
    aliases = {}
    for a in draw(st.lists(st.sampled_from(ALIASES[:5]), max_size=2, unique=True)):
        aliases[a] = draw(schemas(depth=1, small=True))
    env = Env(schema, aliases, chaos=chaos, reserved=set(aliases))
    if T is None:
        T = draw(st.sampled_from(['B', 'B', 'N', 'N', 'S']))
    e = draw(typed_term(env, T, depth))
    return e, T, schema, aliases
