# Generators (Hypothesis strategies) over model trees.
#
#   schemas()            message schemas
#   G-typed:  typed_term(env, T, depth)  type-directed, schema-consistent terms
#   G-syn:    the same generator with chaos > 0 (type discipline dropped at random positions)
#   events / scopes / patterns / properties / specifications
#
# Schema field types (ftype):
#   ('bool',) ('num', token) ('str',) ('arr', elem_ftype, length) ('msg', schema)
# schema = {'fields': {name: ftype}, 'consts': {name: (ftype, value)}}

from hypothesis import strategies as st

from hplverif.tape import Chooser, from_tape

from hplverif import mast
from hplverif.mast import FALSE, TRUE, binop, own

NUM_TOKENS = ('uint8', 'uint16', 'uint32', 'uint64', 'int8', 'int16', 'int32', 'int64', 'float32', 'float64')

NEUTRAL_FIELDS = ('x', 'y', 'z', 'w', 'p', 'q', 'r', 'data', 'value', 'vel', 'count', 'name', 'flag', 'u', 'v2')
KW_FIELDS = (
    'notes', 'index', 'Enabled', 'E1', 'PIx', 'forall_x', 'existsx', 'orb', 'android', 'iffy', 'tom', 'inside',
    'nob', 'Truex', 'INFx', 'asx', 'intx', 'nothing', 'somex', 'untilx', 'sx', 'msx', 'Falsey', 'NANO', 'impliesx',
)  # fmt: skip
ALIASES = ('A', 'B', 'C', 'M1', 'first', 'assert', 'Within', 'Ex', 'nox', 'orig', 'asA')
QVARS = ('i', 'j', 'k', 'e1x', 'item', 'inx', 'tox', 'n0')
TOPICS = (
    'a', 'b', 'c', 'd', 'e1', 'p', 'q', 't1', 'node', 'nothing', 'something', 'no/de', 'some/x', 'untilx',
    '/ns/topic', '~priv', '/a/b_c', 'android', 'as1', 'withinx', 'causesx', 'globally1', 'orb', 'afterx',
)  # fmt: skip

STR_LITS = ('"a"', '"b"', '""', '"a\\"b"', '"#"', '"x y"', '"not"', '"{1}"')
INT_LITS = ('0', '1', '2', '3', '10', '7')
FLOAT_LITS = ('0.5', '3.5', '1.', '.5', '1e3', '2.5e-3', '0.0', '1.0', '2.25')

NUM_FUNCS_N = ('abs', 'int', 'float', 'sqrt', 'ceil', 'floor', 'sin', 'cos', 'tan', 'asin', 'acos', 'atan', 'deg', 'rad')
AGG_FUNCS = ('len', 'sum', 'prod', 'max', 'min', 'gcd')
MSG_FUNCS = ('roll', 'pitch', 'yaw')

PRIM = ('B', 'N', 'S')

LETTERS = 'abcdefghijklmnopqrstuvwxyzABCDEFGHIJKLMNOPQRSTUVWXYZ'
NAME_REST = LETTERS + '0123456789_'
RESERVED_WORDS = set(mast.KEYWORDS) | set(mast.ALL_BUILTINS) | {'id', 'title', 'description', 'hz'}


def rand_cname(ch, lead_underscore=True):
    """A random CNAME ([_a-zA-Z][_a-zA-Z0-9]*) that is not a keyword, built-in or annotation key."""
    for _ in range(4):
        first = ch.pick(LETTERS + ('_' if lead_underscore else ''))
        name = first + ''.join(ch.pick(NAME_REST) for _ in range(ch.int(0, 6)))
        if name not in RESERVED_WORDS and name != '_':
            return name
    return 'zq' + str(ch.int(0, 99))


def rand_topic(ch):
    """A random channel name: [/~]?[a-zA-Z][0-9a-zA-Z_]*(/[a-zA-Z][0-9a-zA-Z_]*)*, not a keyword."""
    segs = []
    for _ in range(ch.int(1, 3)):
        segs.append(ch.pick(LETTERS) + ''.join(ch.pick(NAME_REST) for _ in range(ch.int(0, 5))))
    name = ch.pick(['', '', '/', '~']) + '/'.join(segs)
    return name if name not in RESERVED_WORDS else name + '_t'


def rand_number(ch):
    k = ch.int(0, 7)
    digits = lambda n: ''.join(ch.pick('0123456789') for _ in range(n))  # noqa: E731
    if k <= 2:
        return ('lit', 'int', str(int(digits(ch.int(1, 9)))))
    if k == 3:
        return ch.pick([('lit', 'int', t) for t in ('0', '255', '256', '65535', '4294967296', '9223372036854775807', '1000000', '18446744073709551615',
                                                       '1' + '0' * 400, '123456789' * 40, '340282366920938463463374607431768211456', '007', '01', '00', '08')]
                       + [('lit', 'float', t) for t in ('1e400', '1e-400', '1e308', '1.7976931348623157e308', '5e-324', '2.5E+300', '08.50', '00.5', '1E0')])  # fmt: skip
    if k == 4:
        return ('lit', 'float', digits(ch.int(1, 4)) + '.' + digits(ch.int(0, 6)))
    if k == 5:
        return ('lit', 'float', '.' + digits(ch.int(1, 5)))
    if k == 6:
        return ('lit', 'float', str(int(digits(ch.int(1, 3)))) + ch.pick(['e', 'E']) + ch.pick(['', '+', '-']) + str(ch.int(0, 12)))
    return ('lit', 'float', digits(ch.int(1, 3)) + '.' + digits(ch.int(1, 3)) + 'e' + ch.pick(['', '-']) + str(ch.int(0, 6)))


STR_CHARS = list('abcXYZ 0189_-+*/<>=!.,:;(){}[]#@\'$%&|~^?') + ['\\"', '\\\\', '\\n', '\\t', 'é', 'ß', '☃', '日', '  ']


def rand_string(ch):
    return ('lit', 'str', '"' + ''.join(ch.pick(STR_CHARS) for _ in range(ch.int(0, 8))) + '"')


def prim_code(ft):
    return {'bool': 'B', 'num': 'N', 'str': 'S'}.get(ft[0])


def prim_ftype(T):
    return {'B': ('bool',), 'N': ('num', 'float64'), 'S': ('str',)}[T]


###############################################################################
# Schemas
###############################################################################


def ftypes(ch, depth):
    kinds = ['bool', 'num', 'num', 'str', 'arr', 'arr']
    if depth > 0:
        kinds += ['msg', 'arrmsg']
    k = ch.pick(kinds)
    if k == 'bool':
        return ('bool',)
    if k == 'num':
        return ('num', ch.pick(NUM_TOKENS))
    if k == 'str':
        return ('str',)
    if k == 'arr':
        elem = ch.pick([('bool',), ('num', 'int32'), ('num', 'float64'), ('str',)])
        return ('arr', elem, ch.pick([-1, -1, 1, 2, 3]))
    sub = schemas(ch, depth=depth - 1, small=True)
    if k == 'msg':
        return ('msg', sub)
    return ('arr', ('msg', sub), ch.pick([-1, 2, 3]))


def schemas(ch, depth=2, small=False):
    n_extra = ch.int(0, 2 if small else 4)
    pool = NEUTRAL_FIELDS + KW_FIELDS
    names = ch.sample(pool, min_size=5 + n_extra, max_size=5 + n_extra, unique=True)
    if ch.int(0, 2) == 0:
        # lexical variety: some names drawn from the whole CNAME space
        for i in range(len(names)):
            if ch.int(0, 2) == 0:
                cand = rand_cname(ch)
                if cand not in names:
                    names[i] = cand
    base = [('bool',), ('num', ch.pick(NUM_TOKENS)), ('num', 'float64'), ('str',), ('arr', ('num', 'int32'), -1)]
    if small:
        base = base[: ch.int(2, 5)]
        names = names[: len(base) + n_extra]
    fields = {}
    for name, ft in zip(names, base):
        fields[name] = ft
    for name in names[len(base) :]:
        fields[name] = ftypes(ch, depth)
    consts = {}
    if ch.int(0, 3) == 0:
        cname = ch.pick(('K', 'MAXV', 'NOTE', 'E2'))
        if cname not in fields:
            which = ch.pick(['num', 'str', 'bool'])
            if which == 'num':
                consts[cname] = (('num', 'uint8'), ch.pick([0, 1, 2]))
            elif which == 'str':
                consts[cname] = (('str',), ch.pick(['"a"', '"b"']))
            else:
                consts[cname] = (('bool',), ch.bool())
    return {'fields': fields, 'consts': consts}


def schema_paths(schema, maxdepth=3):
    """All access paths of a schema: list of (steps, ftype); step = ('f', name) | ('i', length)."""
    out = []

    def rec(sc, prefix, d):
        items = list(sc['fields'].items()) + [(n, ft) for n, (ft, _v) in sc['consts'].items()]
        for name, ft in items:
            steps = prefix + (('f', name),)
            add(steps, ft, d)

    def add(steps, ft, d):
        out.append((steps, ft))
        if d <= 0:
            return
        if ft[0] == 'msg':
            rec(ft[1], steps, d - 1)
        elif ft[0] == 'arr':
            add(steps + (('i', ft[2]),), ft[1], d - 1)

    rec(schema, (), maxdepth)
    return out


def want_matches(ft, want):
    """want: 'B'|'N'|'S' primitive, 'AB'|'AN'|'AS' array of primitive, 'AM', 'M'."""
    if want in PRIM:
        return prim_code(ft) == want
    if want == 'M':
        return ft[0] == 'msg'
    if want == 'AM':
        return ft[0] == 'arr' and ft[1][0] == 'msg'
    if want[0] == 'A':
        return ft[0] == 'arr' and prim_code(ft[1]) == want[1]
    return False


###############################################################################
# Environment
###############################################################################


class Env:
    """What references are available at a position.

    this:    schema of the current message, or None
    aliases: {alias: schema} of earlier events
    qvars:   {name: 'B'|'N'|'S'} quantified variables in scope
    chaos:   probability weight (0..100) of dropping the type discipline at a position (G-syn)
    """

    def __init__(self, this=None, aliases=None, qvars=None, chaos=0, reserved=(), qtypes=None, allow_f12=True):
        self.this = this
        # type at which each quantified-variable name has been bound anywhere in this predicate; with
        # allow_f12=False sibling quantifiers reuse a name only at the same element type (finding F12,
        # repaired: the library used to group references by printed form across sibling binders)
        self.qtypes = {} if qtypes is None else qtypes
        self.allow_f12 = allow_f12
        self.aliases = dict(aliases or {})
        self.qvars = dict(qvars or {})
        self.chaos = chaos
        self.reserved = set(reserved)  # names a quantifier must not bind (aliases in the property)
        self._paths = {}

    def with_qvar(self, name, T):
        e = Env(self.this, self.aliases, dict(self.qvars, **{name: T}), self.chaos, self.reserved, self.qtypes, self.allow_f12)
        e._paths = self._paths
        return e

    def derive(self, chaos=None, reserved=None):
        e = Env(
            self.this, self.aliases, self.qvars, self.chaos if chaos is None else chaos,
            self.reserved if reserved is None else reserved, self.qtypes, self.allow_f12,
        )  # fmt: skip
        e._paths = self._paths
        return e

    def paths(self, key):
        if key not in self._paths:
            sc = self.this if key is None else self.aliases[key]
            self._paths[key] = schema_paths(sc) if sc is not None else []
        return self._paths[key]

    def candidates(self, want):
        out = []
        for key in [None] + sorted(self.aliases):
            if key is None and self.this is None:
                continue
            for steps, ft in self.paths(key):
                if want_matches(ft, want):
                    out.append((key, steps))
        return out


###############################################################################
# Terms
###############################################################################


def _lit(ch, T):
    if T == 'B':
        return ch.pick([TRUE, FALSE])
    if T == 'S':
        if ch.int(0, 4) == 0:
            return rand_string(ch)
        return ('lit', 'str', ch.pick(STR_LITS))
    if ch.int(0, 5) == 0:
        return rand_number(ch)
    if ch.int(0, 2) < 2:
        return ('lit', 'int', ch.pick(INT_LITS))
    return ('lit', 'float', ch.pick(FLOAT_LITS))


def ref_term(ch, env, want, depth):
    """A reference of the wanted type, or None when the environment has none."""
    cands = env.candidates(want)
    qv = [n for n, T in env.qvars.items() if T == want]
    if not cands and not qv:
        return None
    if qv and (not cands or ch.int(0, 2) == 0):
        return ('var', ch.pick(sorted(qv)))
    key, steps = ch.pick(cands)
    node = ('this',) if key is None else ('var', key)
    for step in steps:
        if step[0] == 'f':
            node = ('field', node, step[1])
        else:
            length = step[1]
            if length >= 0 or depth <= 0 or ch.int(0, 2) > 0:
                hi = (length - 1) if length >= 0 else 2
                idx = ('lit', 'int', str(ch.int(0, max(hi, 0))))
                if ch.int(0, 11) == 0:
                    idx = ('lit', 'int', ch.pick(['0', '00']) + idx[2])  # the same position spelled with leading zeros
            else:
                idx = typed_term(ch, env, 'N', min(depth - 1, 1))
            node = ('index', node, idx)
    return node


def any_term(ch, env, depth):
    """A term of a random kind (used by chaos and by G-syn positions)."""
    kind = ch.pick(['B', 'N', 'S', 'SET', 'RANGE', 'ARR', 'MSG', 'B', 'N'])
    if kind in PRIM:
        return typed_term(ch, env, kind, depth)
    if kind == 'SET':
        return set_lit(ch, env, ch.pick(PRIM), depth)
    if kind == 'RANGE':
        return range_lit(ch, env, depth)
    if kind == 'ARR':
        r = ref_term(ch, env, ch.pick(['AN', 'AB', 'AS', 'AM']), depth)
        return r if r is not None else own('xs')
    r = ref_term(ch, env, 'M', depth)
    return r if r is not None else own('m')


def set_lit(ch, env, T, depth):
    n = ch.int(1, 3)
    return ('set', tuple(typed_term(ch, env, T, max(depth - 1, 0)) for _ in range(n)))


def range_lit(ch, env, depth):
    lo = typed_term(ch, env, 'N', max(depth - 1, 0))
    hi = typed_term(ch, env, 'N', max(depth - 1, 0))
    return ('range', lo, hi, ch.bool(), ch.bool())


def compound(ch, env, T, depth):
    """A compound value with elements of primitive type T: array reference, set or range literal."""
    opts = ['set']
    if T == 'N':
        opts += ['range', 'range']
    arr = ref_term(ch, env, 'A' + T, depth)
    if arr is not None:
        opts += ['arr', 'arr']
    k = ch.pick(opts)
    if k == 'arr':
        return arr
    if k == 'range':
        return range_lit(ch, env, depth)
    return set_lit(ch, env, T, depth)


def _fresh_qvar(ch, env):
    used = set(env.qvars) | set(env.aliases) | env.reserved
    free = [v for v in QVARS if v not in used]
    return ch.pick(free) if free else None


def atom_using(ch, env, var, T, depth):
    """A boolean atom that uses @var (of primitive type T)."""
    v = ('var', var)
    if T == 'B':
        k = ch.int(0, 3)
        if k == 0:
            return v
        if k == 1:
            return ('un', 'not', v)
        other = typed_term(ch, env, 'B', max(depth - 1, 0))
        return binop(ch.pick(['=', '!=', 'implies', 'or']), v, other)
    if T in ('S', 'N') and ch.int(0, 7) == 0:
        # the variable occurs only INSIDE a set (or, for numbers, a range) literal
        other = typed_term(ch, env, T, max(depth - 1, 0))
        if T == 'N' and ch.bool():
            lo = _lit(ch, 'N')
            return binop('in', other, ('range', lo, v, False, ch.bool()) if ch.bool() else ('range', v, _lit(ch, 'N'), ch.bool(), False))
        return binop('in', other, ('set', (v, _lit(ch, T)) if ch.bool() else (_lit(ch, T), v)))
    if T == 'S':
        k = ch.int(0, 2)
        other = typed_term(ch, env, 'S', max(depth - 1, 0))
        if k == 0:
            return binop(ch.pick(['=', '!=']), v, other)
        if k == 1:
            return binop('=', other, v)
        return binop('in', v, set_lit(ch, env, 'S', max(depth - 1, 0)))
    k = ch.int(0, 4)
    other = typed_term(ch, env, 'N', max(depth - 1, 0))
    if k == 0:
        return binop(ch.pick(['<', '<=', '>', '>=', '=', '!=']), v, other)
    if k == 1:
        return binop(ch.pick(['<', '>=', '=']), other, v)
    if k == 2:
        return binop('in', v, compound(ch, env, 'N', max(depth - 1, 0)))
    if k == 3:
        return binop(ch.pick(['<', '>']), binop(ch.pick(['+', '-', '*']), v, other), _lit(ch, 'N'))
    return binop('>', ('call', 'abs', v), other)


def quantifier(ch, env, depth, dom_using=None):
    """dom_using: None or (name, T) of an enclosing quantifier's variable that the domain of this one is built on."""
    var = _fresh_qvar(ch, env)
    shadow = None
    if (env.aliases or env.reserved) and not env.chaos and dom_using is None and ch.int(0, 9) == 0:
        # the quantifier binds the name of an alias that is visible here: inside (and in the domain, which must not
        # mention the variable at all) the alias is out of reach; outside the name keeps meaning the earlier message.
        # Or the name of an alias bound somewhere else in the property that is not visible here (an alternative of a
        # disjunction, the terminator, another scope): just a name.
        cands = sorted(a for a in set(env.aliases) | set(env.reserved) if isinstance(a, str) and a in ALIASES and a not in env.qvars and ('dom', a) not in env.reserved)
        if cands:
            shadow = var = ch.pick(cands)
    if var is None:
        return None
    T = ch.pick(['N', 'N', 'B', 'S']) if dom_using is None else dom_using[1]
    if not env.allow_f12:
        T0 = env.qtypes.setdefault(var, T)
        if dom_using is not None and T0 != T:
            return None
        T = T0
    if shadow is not None:
        visible = {a: sc for a, sc in env.aliases.items() if a != shadow}
        env = Env(env.this, visible, env.qvars, env.chaos, env.reserved | {shadow}, env.qtypes, env.allow_f12)
    # the domain must not mention the variable, not even bound by a quantifier of its own
    outer = env.derive(reserved=env.reserved | {var, ('dom', var)})
    dom = compound(ch, outer, T, max(depth - 1, 0))
    if dom_using is not None:
        # the domain depends on the enclosing quantifier's variable: `forall i in xs: forall j in [0 to @i]: ...`
        ov = ('var', dom_using[0])
        if T == 'N' and ch.bool():
            dom = ('range', _lit(ch, 'N'), ov, ch.bool(), ch.bool()) if ch.bool() else ('range', ov, _lit(ch, 'N'), ch.bool(), ch.bool())
        else:
            dom = ('set', (ov, _lit(ch, T)) if ch.bool() else (_lit(ch, T), ov))
    inner = env.with_qvar(var, T)
    core = atom_using(ch, inner, var, T, max(depth - 1, 0))
    if depth >= 2 and not env.chaos and ch.int(0, 5) == 0:
        # the body is directly another quantifier, over a domain built on this one's variable
        nested = quantifier(ch, inner, depth - 1, dom_using=(var, T))
        if nested is not None:
            return ('q', ch.pick(['forall', 'forall', 'exists']), var, dom, nested)
    k = ch.int(0, 5)
    if k <= 2 or depth <= 1:
        body = core
    else:
        other = typed_term(ch, inner, 'B', max(depth - 2, 0))
        if k == 3:
            body = binop('and', core, other)
        elif k == 4:
            body = binop('implies', other, core)
        else:
            body = binop(ch.pick(['or', 'and', 'iff']), other, core)
    return ('q', ch.pick(['forall', 'exists']), var, dom, body)


def typed_term(ch, env, T, depth):
    """A term of primitive type T in {'B','N','S'}, consistent with env's schemas."""
    if env.chaos and ch.int(0, 99) < env.chaos:
        return any_term(ch, env.derive(chaos=env.chaos // 2), max(depth - 1, 0))
    if depth <= 0:
        r = ref_term(ch, env, T, 0)
        if r is not None and ch.int(0, 3) > 0:
            return r
        if T == 'B' and ch.int(0, 3) > 0:
            # avoid drowning boolean positions in True/False
            l = ref_term(ch, env, 'N', 0) or _lit(ch, 'N')
            return binop(ch.pick(['<', '>', '=', '>=', '<=', '!=']), l, _lit(ch, 'N'))
        return _lit(ch, T)
    d = depth - 1
    if T == 'B':
        k = ch.int(0, 15)
        if k <= 1:
            return typed_term(ch, env, 'B', 0)
        if k == 2:
            return ('un', 'not', typed_term(ch, env, 'B', d))
        if k <= 6:
            op = ch.pick(['and', 'and', 'or', 'or', 'implies', 'iff'])
            return binop(op, typed_term(ch, env, 'B', d), typed_term(ch, env, 'B', d))
        if k <= 8:
            op = ch.pick(['<', '<=', '>', '>='])
            return binop(op, typed_term(ch, env, 'N', d), typed_term(ch, env, 'N', d))
        if k <= 10:
            P = ch.pick(['N', 'N', 'S', 'B'])
            op = ch.pick(['=', '!='])
            return binop(op, typed_term(ch, env, P, d), typed_term(ch, env, P, d))
        if k == 11:
            P = ch.pick(['N', 'N', 'S', 'B'])
            return binop('in', typed_term(ch, env, P, d), compound(ch, env, P, d))
        if k <= 13:
            q = quantifier(ch, env, depth)
            if q is not None:
                return q
            return typed_term(ch, env, 'B', 0)
        if k == 14:
            return ('call', 'bool', typed_term(ch, env, ch.pick(PRIM), d))
        return typed_term(ch, env, 'B', 0)
    if T == 'N':
        k = ch.int(0, 15)
        if k >= 14:
            # an element of a variable-length numeric array at a computed index (own or alias fields in the index)
            arr = ref_term(ch, env, 'AN', 0)
            if arr is not None and not (arr[0] == 'index'):
                idx = typed_term(ch, env, 'N', min(d, 1))
                try:
                    fixed = _is_fixed_array(env, arr)
                except Exception:
                    fixed = True
                if not fixed:
                    return ('index', arr, idx)
            return typed_term(ch, env, 'N', 0)
        if k <= 2:
            return typed_term(ch, env, 'N', 0)
        if k == 3:
            return ('un', '-', typed_term(ch, env, 'N', d))
        if k <= 8:
            op = ch.pick(['+', '+', '-', '-', '*', '*', '/', '**'])
            return binop(op, typed_term(ch, env, 'N', d), typed_term(ch, env, 'N', d))
        if k == 9:
            c = ('const', ch.pick(['PI', 'E', 'PI', 'E', 'INF', 'NAN']))
            return ('un', '-', c) if ch.int(0, 2) == 0 else c
        if k == 10:
            f = ch.pick(NUM_FUNCS_N)
            if f in ('int', 'float') and ch.int(0, 3) == 0:
                return ('call', f, typed_term(ch, env, ch.pick(['B', 'S']), d))
            return ('call', f, typed_term(ch, env, 'N', d))
        if k <= 12:
            f = ch.pick(AGG_FUNCS)
            if f == 'len':
                P = ch.pick(PRIM)
                return ('call', f, compound(ch, env, P, d))
            return ('call', f, compound(ch, env, 'N', d))
        m = ref_term(ch, env, 'M', d)
        if m is not None and ch.int(0, 2) == 0:
            return ('call', ch.pick(MSG_FUNCS), m)
        return typed_term(ch, env, 'N', 0)
    # strings
    k = ch.int(0, 4)
    if k <= 3:
        return typed_term(ch, env, 'S', 0)
    return ('call', 'str', typed_term(ch, env, ch.pick(PRIM), d))


def _is_fixed_array(env, arr):
    """Is the array reference arr (a field chain without indices) declared with a fixed length?"""
    steps = []
    n = arr
    while n[0] == 'field':
        steps.append(n[2])
        n = n[1]
    steps.reverse()
    sc = env.this if n == ('this',) else env.aliases[n[1]]
    ft = None
    for name in steps:
        ft = sc['fields'].get(name) or sc['consts'][name][0]
        if ft[0] == 'msg':
            sc = ft[1]
    return ft is None or ft[0] != 'arr' or ft[2] >= 0


def uses_this(e):
    return mast.has_this(e)


def predicate_term(ch, env, depth, need_this=True):
    """A boolean condition for an event predicate; references the current message."""
    e = typed_term(ch, env, 'B', depth)
    if e in (TRUE, FALSE):
        return e
    if need_this and env.this is not None and not uses_this(e):
        anchor = ref_term(ch, Env(env.this, chaos=0), 'B', 0)
        if anchor is None:
            n = ref_term(ch, Env(env.this, chaos=0), 'N', 0)
            anchor = binop('>=', n, ('lit', 'int', '0')) if n is not None else None
        if anchor is not None:
            e = binop(ch.pick(['and', 'or']), anchor, e) if ch.bool() else binop('and', e, anchor)
    return e


###############################################################################
# Layouts
###############################################################################


def layouts(ch):
    mode = ch.int(0, 5)
    if mode == 0:
        return mast.Layout()
    seps = ch.ints(0, 9, 1, 12) if mode >= 2 else ()
    extra = ()
    if mode >= 3:
        extra = [ch.pick([0, 0, 0, 1, 0, 2]) for _ in range(ch.int(1, 7))]
    return mast.Layout(seps=seps, extra=extra, full=(mode in (1, 5)))


###############################################################################
# Events, scopes, patterns, properties
###############################################################################

SCOPES = ('globally', 'after', 'until', 'after_until')
PATTERNS = ('existence', 'absence', 'response', 'prevention', 'requirement')

TIME_NUMS = ('1', '2', '10', '100', '0.5', '3.5', '1.', '.5', '1e3', '2.5e-3', '0', '0.001', '250', '1e-3')


def time_bounds(ch, wild=False):
    if ch.int(0, 2) == 0:
        return None
    if wild and ch.bool():
        k = ch.int(0, 3)
        if k == 0:
            v = ch.float64(0.0, 1e308)
            txt = repr(v)
        elif k == 1:
            v = ch.unit()
            txt = repr(v)
        elif k == 2:
            txt = str(ch.int(1, 99999) / 10 ** ch.int(1, 6))
        else:
            txt = f'{ch.int(0, 9999)}e{ch.int(-12, 12)}'
        if txt in ('inf', 'nan'):
            txt = '1e400'
        return (txt, ch.pick(['s', 'ms']))
    return (ch.pick(TIME_NUMS), ch.pick(['s', 'ms']))


class PropCtx:
    """Book-keeping while a property is generated: topics, schemas and alias scoping."""

    def __init__(self, topic_schemas, chaos=0):
        self.topic_schemas = topic_schemas  # {topic: schema}
        self.alias_schema = {}  # alias -> schema (of the topic it is bound on)
        self.chaos = chaos
        self.all_aliases = set()


def simple_event(ch, pc, topic, visible, depth, alias=None, pred_prob=3):
    """('ev', topic, alias, pred). visible: aliases that may be referenced here."""
    schema = pc.topic_schemas[topic]
    pred = None
    if ch.int(0, pred_prob) > 0:
        aliases = {a: pc.alias_schema[a] for a in visible}
        if alias is not None and ch.int(0, 3) == 0:
            aliases[alias] = schema  # the event's own alias may be used too
        env = Env(schema, aliases, chaos=pc.chaos, reserved=pc.all_aliases)
        pred = predicate_term(ch, env, depth)
        if ch.int(0, 15) == 0:
            pred = ch.pick([TRUE, FALSE])  # `{True}` / `{False}`: the vacuous truth and the contradiction as event predicates
    return ('ev', topic, alias, pred)


def any_event(ch, pc, topics, visible, depth, width=None, alias_prob=2, taken=(), reusable=()):
    """A simple event or a disjunction over distinct topics. Returns (event, aliases bound by all alternatives).

    reusable: alias names bound elsewhere in the property that this event may bind again (the terminator may reuse the
    names of the pattern's events: it is only compared with the activator's). Their entry in pc.alias_schema stays the
    earlier one, which is the binding every external reference to the name means."""
    if width is None:
        width = ch.pick([1, 1, 1, 2, 2, 3, 4])
    width = min(width, len(topics))
    chosen = ch.sample(sorted(topics), min_size=width, max_size=width, unique=True)
    evs = []
    bound = []
    free_aliases = [a for a in ALIASES if a not in pc.all_aliases and a not in taken]
    again = sorted(a for a in reusable if a not in taken)
    for t in chosen:
        alias = None
        if again and ch.int(0, 1) == 0:
            alias = ch.pick(again)
            again.remove(alias)
            bound.append(alias)
        elif free_aliases and ch.int(0, alias_prob) == 0:
            alias = ch.pick(free_aliases)
            free_aliases.remove(alias)
            pc.all_aliases.add(alias)
            pc.alias_schema[alias] = pc.topic_schemas[t]
            bound.append(alias)
        evs.append(simple_event(ch, pc, t, visible, depth, alias=alias))
    if width == 1:
        return evs[0], tuple(bound)
    # only an alias bound by every alternative is safely visible later; with
    # distinct names per alternative that never happens, so a disjunction
    # exports nothing in the main family (F13 family is generated separately)
    return ('disj', tuple(evs)), ()


def properties(ch, depth=3, chaos=0, wild_time=False, max_width=4, meta=True, schemas_out=None, shape=None):
    """A sanity-correct property with schema-consistent predicates.

    shape: None (random) or (scope_kind, pattern_kind, {role: width}) to fix the skeleton.
    Returns (prop, info) with info = {'topics': {topic: schema}, 'aliases': {alias: topic-schema}}.
    """
    ntopics = ch.int(2, 6) if shape is None else max(4, ch.int(4, 6))
    topics = ch.sample(TOPICS, min_size=ntopics, max_size=ntopics, unique=True)
    if ch.int(0, 2) == 0:
        for i in range(len(topics)):
            if ch.int(0, 1) == 0:
                cand = rand_topic(ch)
                # topics and aliases share one namespace in type_check_references(msg_types)
                if cand not in topics and cand not in ALIASES:
                    topics[i] = cand
    topic_schemas = {t: schemas(ch, depth=1, small=True) for t in topics}
    pc = PropCtx(topic_schemas, chaos=chaos)
    if shape is None:
        sk = ch.pick(SCOPES)
        pk = ch.pick(PATTERNS)
        widths = [w for w in [1, 1, 1, 2, 2, 3, 4] if w <= max_width]
        width = lambda role: ch.pick(widths)  # noqa: E731
    else:
        sk, pk, wmap = shape
        width = lambda role: wmap[role]  # noqa: E731
    act = term = trig = None
    act_aliases = ()
    if sk in ('after', 'after_until'):
        act, act_aliases = any_event(ch, pc, topics, (), depth, width=width('activator'))
    if pk in ('existence', 'absence'):
        beh, _ = any_event(ch, pc, topics, act_aliases, depth, width=width('behaviour'))
    elif pk == 'requirement':
        beh, b_al = any_event(ch, pc, topics, act_aliases, depth, width=width('behaviour'))
        trig, _ = any_event(ch, pc, topics, act_aliases + b_al, depth, width=width('trigger'))
    else:
        trig, t_al = any_event(ch, pc, topics, act_aliases, depth, width=width('trigger'))
        beh, _ = any_event(ch, pc, topics, act_aliases + t_al, depth, width=width('behaviour'))
    if sk in ('until', 'after_until'):
        # every name bound in the activator (also by one alternative only) is closed to the terminator
        in_act = {e[2] for e in mast.simple_events(act)}
        again = sorted(pc.all_aliases - in_act) if ch.int(0, 2) == 0 else ()
        term, _ = any_event(ch, pc, topics, act_aliases, depth, width=width('terminator'), reusable=again)
    bound = time_bounds(ch, wild=wild_time)
    md = ()
    if meta:
        keys = ch.sample(['id', 'title', 'description'], unique=True, max_size=3)
        vals = {
            'id': (['p1', 'prop_2', 'notes', 'id', 'P3x']),
            'title': (['"A title"', '"t"', '""', '"with # hash"', '"say \\"hi\\""']),
            'description': (['"Some text."', '"d"', '"globally: no a"', '"line\\nbreak"']),
        }
        md = tuple((k, ch.pick(vals[k])) for k in keys)
    prop = ('prop', md, ('scope', sk, act, term), ('pat', pk, trig, beh, bound))
    info = {'topics': topic_schemas, 'aliases': dict(pc.alias_schema)}
    return prop, info


def vacuity_table():
    """Deterministic family: every scope kind x pattern kind, every present event position either a simple event or a
    two-way disjunction, and all events of one position carrying the same predicate out of {none, {True}, {False}, {x > 0}}
    (the vacuous truth and the contradiction as event predicates, alone and on every alternative of a disjunction)."""
    import itertools

    preds = [None, TRUE, FALSE, binop('>', own('x'), ('lit', 'int', '0'))]
    names = {'activator': ('p1', 'p2'), 'terminator': ('q1', 'q2'), 'trigger': ('a1', 'a2'), 'behaviour': ('b1', 'b2')}
    for sk in SCOPES:
        for pk in PATTERNS:
            roles = []
            if sk in ('after', 'after_until'):
                roles.append('activator')
            if sk in ('until', 'after_until'):
                roles.append('terminator')
            if pk not in ('existence', 'absence'):
                roles.append('trigger')
            roles.append('behaviour')
            options = [(w, pr) for w in (1, 2) for pr in range(len(preds))]
            for combo in itertools.product(options, repeat=len(roles)):
                evs = {}
                for role, (w, pr) in zip(roles, combo):
                    alts = tuple(('ev', names[role][i], None, preds[pr]) for i in range(w))
                    evs[role] = alts[0] if w == 1 else ('disj', alts)
                yield ('prop', (), ('scope', sk, evs.get('activator'), evs.get('terminator')), ('pat', pk, evs.get('trigger'), evs['behaviour'], None))


def all_shapes(max_width=4):
    """Every (scope kind, pattern kind, widths per present event position)."""
    import itertools

    out = []
    for sk in SCOPES:
        for pk in PATTERNS:
            roles = []
            if sk in ('after', 'after_until'):
                roles.append('activator')
            if sk in ('until', 'after_until'):
                roles.append('terminator')
            if pk not in ('existence', 'absence'):
                roles.append('trigger')
            roles.append('behaviour')
            for ws in itertools.product(range(1, max_width + 1), repeat=len(roles)):
                out.append((sk, pk, dict(zip(roles, ws))))
    return out


def standalone_predicates(ch, depth=4, chaos=0):
    """(condition, schema, alias schemas) for predicate/expression entry points."""
    schema = schemas(ch, depth=2)
    aliases = {}
    for a in ch.sample(ALIASES[:5], max_size=2, unique=True):
        aliases[a] = schemas(ch, depth=1, small=True)
    env = Env(schema, aliases, chaos=chaos, reserved=set(aliases))
    e = predicate_term(ch, env, depth, need_this=False)
    return e, schema, aliases


def standalone_terms(ch, depth=4, chaos=0, T=None):
    schema = schemas(ch, depth=2)
    aliases = {}
    for a in ch.sample(ALIASES[:5], max_size=2, unique=True):
        aliases[a] = schemas(ch, depth=1, small=True)
    env = Env(schema, aliases, chaos=chaos, reserved=set(aliases))
    if T is None:
        T = ch.pick(['B', 'B', 'N', 'N', 'S'])
    e = typed_term(ch, env, T, depth)
    return e, T, schema, aliases
