# Re-run one saved failing input through the same oracle, without Hypothesis.
# python -m hplverif.replay <file.json>
import importlib
import json
import sys

from hplverif import core


def replay_file(path):
    with open(path) as f:
        rec = json.load(f)
    pid = rec['property']
    mod = importlib.import_module(f'hplverif.checks.{pid.lower()}')
    sub = mod.SUBS[rec['sub']]
    sub(core.detuple(rec['input']))


def main(argv=None):
    argv = sys.argv[1:] if argv is None else argv
    core.bootstrap('hplverif.replay')
    rc = core.EXIT_OK
    for path in argv:
        with open(path) as f:
            pid = json.load(f)['property']
        try:
            replay_file(path)
            print(f'{path}: property={pid} holds on this input')
        except core.Violation as v:
            print(f'VIOLATION property={pid} replay={path}')
            print(f'  {v.sub}: {v.sig}\n  {v.message[:1500]}')
            rc = core.EXIT_VIOLATION
        except Exception as e:
            print(f'HARNESS-ERROR: replay of {path} failed: {e!r}')
            return core.EXIT_HARNESS
    return rc


if __name__ == '__main__':
    sys.exit(main())
