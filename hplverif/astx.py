# Independent access to library ASTs: a table of child slots per class, read
# through getattr (never through children()/iterate()), conversion of a library
# AST to a model tree, deep snapshots, and own implementations of the reference
# queries. A bug in the library's traversal protocol cannot hide itself here.

import math

from hplverif import mast

# class name -> ordered child slots; a slot is (attribute, kind) with kind
# 'one' (a node), 'opt' (node or None), 'many' (tuple of nodes)
SLOTS = {
    'HplSpecification': (('properties', 'many'),),
    'HplProperty': (('scope', 'one'), ('pattern', 'one')),
    'HplScope': (('activator', 'opt'), ('terminator', 'opt')),
    'HplPattern': (('trigger', 'opt'), ('behaviour', 'one')),
    'HplSimpleEvent': (('predicate', 'one'),),
    'HplEventDisjunction': (('event1', 'one'), ('event2', 'one')),
    'HplPredicateExpression': (('expression', 'one'),),
    'HplVacuousTruth': (),
    'HplContradiction': (),
    'HplLiteral': (),
    'HplThisMessage': (),
    'HplVarReference': (),
    'HplSet': (('values', 'many'),),
    'HplRange': (('min_value', 'one'), ('max_value', 'one')),
    'HplQuantifier': (('domain', 'one'), ('condition', 'one')),
    'HplUnaryOperator': (('operand', 'one'),),
    'HplBinaryOperator': (('operand1', 'one'), ('operand2', 'one')),
    'HplFunctionCall': (('arguments', 'many'),),
    'HplFieldAccess': (('message', 'one'),),
    'HplArrayAccess': (('array', 'one'), ('index', 'one')),
}

EXPR_CLASSES = {
    'HplLiteral', 'HplThisMessage', 'HplVarReference', 'HplSet', 'HplRange', 'HplQuantifier',
    'HplUnaryOperator', 'HplBinaryOperator', 'HplFunctionCall', 'HplFieldAccess', 'HplArrayAccess',
}  # fmt: skip


def cname(node):
    return type(node).__name__


def kids(node):
    """Child nodes in declared left-to-right order."""
    out = []
    for attr, kind in SLOTS[cname(node)]:
        v = getattr(node, attr)
        if kind == 'many':
            out.extend(v)
        elif v is not None:
            out.append(v)
    return out


def preorder(node):
    out = []

    def rec(n):
        out.append(n)
        for c in kids(n):
            rec(c)

    rec(node)
    return out


def is_expr(node):
    return cname(node) in EXPR_CLASSES


###############################################################################
# Library AST -> model tree
###############################################################################


def lit_kind(value):
    if value is True or value is False:
        return 'bool'
    if isinstance(value, int):
        return 'int'
    if isinstance(value, float):
        return 'float'
    return 'str'


def _s(x):
    """Plain str (lark Tokens are str subclasses with their own repr)."""
    return str.__str__(x) if isinstance(x, str) else x


def to_model(node):
    """Model tree of a library expression AST (structure only, no types).

    Literals are ('lit', kind, value) with the Python value in place of a
    lexeme (constants such as PI become float literals): used by the
    evaluator and the reference queries, not by the parse matcher.
    """
    c = cname(node)
    if c == 'HplLiteral':
        v = node.value
        if isinstance(v, str):
            v = str.__str__(v)  # lark Tokens are str subclasses: keep a plain str
        return ('lit', lit_kind(node.value), v)
    if c == 'HplThisMessage':
        return ('this',)
    if c == 'HplVarReference':
        return ('var', _s(node.token)[1:])
    if c == 'HplSet':
        return ('set', tuple(to_model(v) for v in node.values))
    if c == 'HplRange':
        return ('range', to_model(node.min_value), to_model(node.max_value), bool(node.exclude_min), bool(node.exclude_max))
    if c == 'HplQuantifier':
        return ('q', _s(node.quantifier.value), _s(node.variable), to_model(node.domain), to_model(node.condition))
    if c == 'HplUnaryOperator':
        return ('un', _s(node.operator.token), to_model(node.operand))
    if c == 'HplBinaryOperator':
        return ('bin', _s(node.operator.token), to_model(node.operand1), to_model(node.operand2))
    if c == 'HplFunctionCall':
        args = tuple(to_model(a) for a in node.arguments)
        if len(args) == 1:
            return ('call', _s(node.function.name), args[0])
        return ('calln', _s(node.function.name), args)
    if c == 'HplFieldAccess':
        return ('field', to_model(node.message), _s(node.field))
    if c == 'HplArrayAccess':
        return ('index', to_model(node.array), to_model(node.index))
    if c == 'HplPredicateExpression':
        return to_model(node.expression)
    if c == 'HplVacuousTruth':
        return ('lit', 'bool', True)
    if c == 'HplContradiction':
        return ('lit', 'bool', False)
    raise ValueError(f'not an expression or predicate: {node!r}')


###############################################################################
# Snapshots (identity-free deep value of an AST, including stored types)
###############################################################################


def _atom(v):
    if isinstance(v, float):
        if math.isnan(v):
            return 'nan'
        return repr(v)
    if isinstance(v, (str, int, bool)) or v is None:
        return (type(v).__name__, v)
    if hasattr(v, 'value') and hasattr(v, 'name') and type(v).__module__.startswith('hpl') and not hasattr(v, '__attrs_attrs__'):
        return ('enum', type(v).__name__, str(v.name))
    return None


def snapshot(node, _path=()):
    """Deep, order-preserving value of every attrs field (incl. data_type and metadata).

    Robust against whatever a changed library may hang into a metadata dict: an object met again on the path from the
    root (a cycle) or deeper than 200 levels is recorded by class name only.
    """
    a = _atom(node)
    if a is not None:
        return a
    if any(node is x for x in _path) or len(_path) > 200:
        return ('again', type(node).__name__)
    path = _path + (node,)
    if isinstance(node, (tuple, list)):
        return ('seq',) + tuple(snapshot(v, path) for v in node)
    if isinstance(node, (set, frozenset)):
        return ('set',) + tuple(sorted((snapshot(v, path) for v in node), key=repr))
    if isinstance(node, dict):
        return ('dict',) + tuple((snapshot(k, path), snapshot(v, path)) for k, v in node.items())
    if hasattr(node, '__attrs_attrs__'):
        out = [type(node).__name__]
        for at in node.__attrs_attrs__:
            out.append((at.name, snapshot(getattr(node, at.name), path)))
        return tuple(out)
    if hasattr(node, 'value') and hasattr(node, 'name'):
        return ('enum', type(node).__name__, repr(node.value))
    return ('obj', repr(node)[:200])


###############################################################################
# Own reference queries over library ASTs
###############################################################################


def free_refs(node, bound=frozenset()):
    """Names of @variables occurring free (own walker; events subtract their alias)."""
    c = cname(node)
    if c == 'HplVarReference':
        n = node.token[1:]
        return set() if n in bound else {n}
    if c == 'HplQuantifier':
        return free_refs(node.domain, bound) | free_refs(node.condition, bound | {node.variable})
    if c == 'HplSimpleEvent':
        r = free_refs(node.predicate, bound)
        if node.alias:
            r.discard(node.alias)
        return r
    out = set()
    for k in kids(node):
        out |= free_refs(k, bound)
    return out


def mentions_var(node, name):
    return any(cname(n) == 'HplVarReference' and n.token[1:] == name for n in preorder(node))


def mentions_this(node):
    return any(cname(n) == 'HplThisMessage' for n in preorder(node))


def binds(node, name):
    return any(cname(n) == 'HplQuantifier' and n.variable == name for n in preorder(node))


def flat_events(ev):
    if ev is None:
        return []
    if cname(ev) == 'HplEventDisjunction':
        return flat_events(ev.event1) + flat_events(ev.event2)
    return [ev]


def message_aliases(a):
    """Names of @variables used only as messages (every occurrence is the object of a field access): the aliases."""
    as_msg, other = set(), set()
    for n in preorder(a):
        for k in kids(n):
            if cname(k) == 'HplVarReference':
                if cname(n) == 'HplFieldAccess' and n.message is k:
                    as_msg.add(_s(k.token)[1:])
                else:
                    other.add(_s(k.token)[1:])
    if cname(a) == 'HplVarReference':
        other.add(_s(a.token)[1:])
    return as_msg - other
