# Reference trace semantics TS for HPL properties (written from docs/lang.md).
#
# A trace is a list of (time, topic, message) with strictly increasing integer
# times; the trace starts at system launch (time 0) and its end is shut-down.
#
# Two admissible readings of scope re-activation for `after p until q`:
#   R1: only the first [p, q) interval counts ("observed for the first time")
#   R2: every maximal [p, q) interval counts (the monitor re-arms after termination)
# Liveness patterns use the strong finite-trace reading (unfulfilled at the end
# of the scope => violated). "Later"/"earlier" mean a strictly larger/smaller
# trace index. Time bounds are inclusive.

import math

from hplverif import astx, ev


class CompiledEvent:
    """A library event compiled to a matcher with memoisation on (topic, payload, relevant bindings)."""

    def __init__(self, event):
        self.alts = []
        for se in astx.flat_events(event):
            model = astx.to_model(se.predicate)
            trivially_true = model == ('lit', 'bool', True)
            refs = sorted(astx.free_refs(se.predicate))
            self.alts.append((se.name, se.alias, model, trivially_true, refs))
        self.cache = {}

    def match(self, topic, msg, msgkey, bindings):
        """None, or the bindings extended with the matching alternative's alias."""
        for name, alias, model, triv, refs in self.alts:
            if name != topic:
                continue
            if triv:
                ok = True
            else:
                key = (name, msgkey, tuple((r, bindings[r][1]) if r in bindings else (r, None) for r in refs))
                ok = self.cache.get(key)
                if ok is None:
                    env = ev.Env(msg, {r: bindings[r][0] for r in refs if r in bindings})
                    st, v = ev.try_ev(model, env)
                    ok = st == 'ok' and v is True
                    self.cache[key] = ok
            if ok:
                if alias:
                    b = dict(bindings)
                    b[alias] = (msg, msgkey)
                    return b
                return bindings
            return None  # topics are unique inside a disjunction
        return None


class CompiledProperty:
    def __init__(self, prop):
        self.scope_kind = prop.scope.scope_type.name  # GLOBAL, AFTER, UNTIL, AFTER_UNTIL
        self.act = CompiledEvent(prop.scope.activator) if prop.scope.activator is not None else None
        self.term = CompiledEvent(prop.scope.terminator) if prop.scope.terminator is not None else None
        self.kind = prop.pattern.pattern_type.name
        self.trig = CompiledEvent(prop.pattern.trigger) if prop.pattern.trigger is not None else None
        self.beh = CompiledEvent(prop.pattern.behaviour)
        self.T = prop.pattern.max_time

    # -- scope ---------------------------------------------------------------
    def intervals(self, trace, reading):
        """Yield (t0, start_index, end_index_exclusive, bindings)."""
        n = len(trace)
        if self.scope_kind == 'GLOBAL':
            yield (0, 0, n, {})
            return
        if self.scope_kind == 'UNTIL':
            end = n
            for i, (t, topic, msg, key) in enumerate(trace):
                if self.term.match(topic, msg, key, {}) is not None:
                    end = i
                    break
            yield (0, 0, end, {})
            return
        i = 0
        while i < n:
            t, topic, msg, key = trace[i]
            b = self.act.match(topic, msg, key, {})
            if b is None:
                i += 1
                continue
            if self.scope_kind == 'AFTER':
                yield (t, i + 1, n, b)
                return
            end = n
            for j in range(i + 1, n):
                tj, topj, msgj, keyj = trace[j]
                if self.term.match(topj, msgj, keyj, b) is not None:
                    end = j
                    break
            yield (t, i + 1, end, b)
            if reading == 'R1' or end >= n:
                return
            i = end + 1

    # -- patterns --------------------------------------------------------------
    def holds_in(self, trace, t0, lo, hi, b0):
        T = self.T
        kind = self.kind
        if kind in ('ABSENCE', 'EXISTENCE'):
            found = False
            for i in range(lo, hi):
                t, topic, msg, key = trace[i]
                if t - t0 > T:
                    break
                if self.beh.match(topic, msg, key, b0) is not None:
                    found = True
                    break
            return found if kind == 'EXISTENCE' else not found
        if kind in ('RESPONSE', 'PREVENTION'):
            for i in range(lo, hi):
                t, topic, msg, key = trace[i]
                b1 = self.trig.match(topic, msg, key, b0)
                if b1 is None:
                    continue
                found = False
                for j in range(i + 1, hi):
                    tj, topj, msgj, keyj = trace[j]
                    if tj - t > T:
                        break
                    if self.beh.match(topj, msgj, keyj, b1) is not None:
                        found = True
                        break
                if found != (kind == 'RESPONSE'):
                    return False
            return True
        if kind == 'REQUIREMENT':
            for j in range(lo, hi):
                tj, topj, msgj, keyj = trace[j]
                b1 = self.beh.match(topj, msgj, keyj, b0)
                if b1 is None:
                    continue
                found = False
                for i in range(j - 1, lo - 1, -1):
                    t, topic, msg, key = trace[i]
                    if tj - t > T:
                        break
                    if self.trig.match(topic, msg, key, b1) is not None:
                        found = True
                        break
                if not found:
                    return False
            return True
        raise ValueError(kind)

    def holds(self, trace, reading):
        for t0, lo, hi, b in self.intervals(trace, reading):
            if not self.holds_in(trace, t0, lo, hi, b):
                return False
        return True


def make_trace(items):
    """items: [(gap, topic, x)] -> [(time, topic, msg, key)] with cumulative integer times."""
    out = []
    t = 0
    for gap, topic, x in items:
        t += gap
        out.append((t, topic, {'x': x}, x))
    return out


def selftest():
    """Hand-computed cases for the trace semantics (run at the start of C12)."""
    from hplverif import lib

    P = lambda s: CompiledProperty(lib.parse('property', s))  # noqa: E731
    tr = lambda *its: make_trace(list(its))  # noqa: E731
    cases = [
        ('globally: no a', tr((1, 'b', 0)), True),
        ('globally: no a', tr((1, 'b', 0), (1, 'a', 0)), False),
        ('globally: no a {x = 1}', tr((1, 'a', 0)), True),
        ('globally: no a within 2 s', tr((3, 'a', 0)), True),
        ('globally: no a within 2 s', tr((2, 'a', 0)), False),
        ('globally: some a', tr(), False),
        ('globally: some a within 2 s', tr((3, 'a', 0)), False),
        ('globally: some a within 2 s', tr((1, 'b', 0), (1, 'a', 0)), True),
        ('globally: a causes b', tr((1, 'a', 0)), False),
        ('globally: a causes b', tr((1, 'a', 0), (1, 'b', 0)), True),
        ('globally: a causes b', tr((1, 'b', 0), (1, 'a', 0)), False),
        ('globally: a causes b within 2 s', tr((1, 'a', 0), (3, 'b', 0)), False),
        ('globally: a as A causes b {x = @A.x}', tr((1, 'a', 1), (1, 'b', 0)), False),
        ('globally: a as A causes b {x = @A.x}', tr((1, 'a', 1), (1, 'b', 0), (1, 'b', 1)), True),
        ('globally: a forbids b', tr((1, 'b', 0), (1, 'a', 0)), True),
        ('globally: a forbids b', tr((1, 'a', 0), (1, 'b', 0)), False),
        ('globally: a forbids b within 2 s', tr((1, 'a', 0), (3, 'b', 0)), True),
        ('globally: b requires a', tr((1, 'b', 0)), False),
        ('globally: b requires a', tr((1, 'a', 0), (1, 'b', 0)), True),
        ('globally: b requires a within 2 s', tr((1, 'a', 0), (3, 'b', 0)), False),
        ('globally: b as B requires a {x = @B.x}', tr((1, 'a', 0), (1, 'b', 1)), False),
        ('after p: no a', tr((1, 'a', 0), (1, 'p', 0)), True),
        ('after p: no a', tr((1, 'p', 0), (1, 'a', 0)), False),
        ('after p: some a within 2 s', tr((5, 'p', 0), (2, 'a', 0)), True),
        ('until q: no a', tr((1, 'q', 0), (1, 'a', 0)), True),
        ('until q: no a', tr((1, 'a', 0), (1, 'q', 0)), False),
        ('until q: some a', tr((1, 'q', 0), (1, 'a', 0)), False),
        ('after p until q: no a', tr((1, 'p', 0), (1, 'q', 0), (1, 'a', 0)), True),
        ('after p until q: no a', tr((1, 'p', 0), (1, 'a', 0), (1, 'q', 0)), False),
        ('after p as P until q {x = @P.x}: no a', tr((1, 'p', 1), (1, 'q', 0), (1, 'a', 0)), False),
        ('globally: no (a or b)', tr((1, 'b', 0)), False),
        ('globally: (a or c) causes b', tr((1, 'c', 0)), False),
    ]
    for text, trace, want in cases:
        for reading in ('R1', 'R2'):
            got = P(text).holds(trace, reading)
            if got is not want:
                raise AssertionError(f'trace semantics self-test: {text!r} on {trace} under {reading}: {got}, expected {want}')
    # the two readings differ exactly on re-activation
    p = P('after p until q: no a')
    t = tr((1, 'p', 0), (1, 'q', 0), (1, 'p', 0), (1, 'a', 0))
    if p.holds(t, 'R1') is not True or p.holds(t, 'R2') is not False:
        raise AssertionError('trace semantics self-test: readings R1/R2')
