# Spawns coverage-guided campaigns (hplverif/fuzz_tape.py) for a check and merges what they find into the run.
import json
import os
import random
import subprocess
import sys
import tempfile

from hplverif import core
from hplverif.core import Violation


def tape_campaigns(ctx, target, n_procs, runs, timeout=3000):
    deps = os.path.join(core.VERIF_DIR, '.deps')
    env = dict(os.environ, PYTHONHASHSEED='0', PYTHONPATH=os.pathsep.join([core.VERIF_DIR, deps]), HPL_REPO_DIR=core.REPO_DIR)
    probe = subprocess.run([sys.executable, '-c', 'import atheris'], env=env, capture_output=True)
    if probe.returncode != 0:
        ctx.note('atheris is not importable (python -m hplverif.setup installs it from the local wheelhouse): coverage-guided campaign skipped')
        return
    with tempfile.TemporaryDirectory(prefix=f'hplverif-{target.lower()}-fuzz-') as d:
        procs = []
        for i in range(n_procs):
            corpus = os.path.join(d, f'corpus{i}')
            os.makedirs(corpus)
            # a few random tapes as starting corpus (half of the campaigns), nothing for the others
            if i % 2 == 1:
                rng = random.Random(core.derive_seed(ctx.seed, 'fuzz-corpus', target, i))
                for j in range(8):
                    with open(os.path.join(corpus, f'seed{j}'), 'wb') as f:
                        f.write(rng.randbytes(512))
            findings = os.path.join(d, f'findings{i}.jsonl')
            cmd = [sys.executable, '-m', 'hplverif.fuzz_tape', target, str(runs), str(core.derive_seed(ctx.seed, 'fuzz', target, i) % (2**31 - 1) + 1), corpus, findings]
            procs.append((subprocess.Popen(cmd, cwd=core.VERIF_DIR, env=env, stdout=subprocess.DEVNULL, stderr=subprocess.DEVNULL), findings, corpus))
        for p, findings, corpus in procs:
            try:
                p.wait(timeout=timeout)
            except subprocess.TimeoutExpired:
                p.kill()
                ctx.note('a coverage-guided campaign hit its wall-clock budget: inconclusive on the rest')
            if os.path.exists(findings + '.stats'):
                with open(findings + '.stats') as f:
                    stats = json.load(f)
                ctx.evaluations += stats['execs']
                ctx.count('atheris:execs', stats['execs'])
                for k, v in stats.get('outcomes', {}).items():
                    ctx.count('atheris:outcome:' + k, v)
                ctx.count('atheris:corpus-entries', len(os.listdir(corpus)))
            if os.path.exists(findings):
                with open(findings) as f:
                    for line in f:
                        rec = json.loads(line)
                        ctx.report(Violation(rec['sub'], rec['sig'], rec['input'], rec['message'] + '\n(found by the coverage-guided campaign)'))
