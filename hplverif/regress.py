# Committed regression corpus: /verif/regressions/<ID>/*.json, replayed first in
# both tiers (inputs from the repo's tests, every shrunk failure ever found,
# every repaired defect). A regression that fails is an ordinary violation.
import glob
import json
import os

from hplverif import core


def replay_regressions(ctx, mod):
    if os.environ.get('VERIF_NO_REGRESSIONS'):
        ctx.note('regression corpus skipped (VERIF_NO_REGRESSIONS)')
        return
    d = os.path.join(core.REGRESSION_DIR, ctx.pid)
    files = sorted(glob.glob(os.path.join(d, '*.json')))
    subs = getattr(mod, 'SUBS', {})
    for path in files:
        with open(path) as f:
            rec = json.load(f)
        cases = rec['cases'] if 'cases' in rec else [rec]
        for c in cases:
            sub = subs.get(c['sub'])
            if sub is None:
                raise core.HarnessError(f'{path}: unknown sub-check {c["sub"]}')
            ctx.count('regressions_replayed')
            try:
                sub(core.detuple(c['input']))
            except core.Violation as v:
                ctx.report(v)
