#!/venv/bin/python
# Coverage-guided complement for C07 (thorough tier): an atheris/libFuzzer target whose
# byte input is decoded into token indices of the HPL vocabulary (structure-aware, so that
# the fuzzer reaches the transformer callbacks and validators instead of dying in the lexer).
# The oracle inside the target is C07's: an AST or a documented error.
#
#   python -m hplverif.fuzz_c07 <runs> <seed> <corpus-dir> <findings-file>
#
# Findings (bucketed by exception type and innermost hpl frame) are appended to the findings
# file as JSON lines; the target never crashes the fuzzer, so one campaign collects all buckets.

import json
import os
import sys


def main():
    runs, seed, corpus, findings = int(sys.argv[1]), int(sys.argv[2]), sys.argv[3], sys.argv[4]
    here = os.path.dirname(os.path.dirname(os.path.abspath(__file__)))
    sys.path.insert(0, here)
    from hplverif import core

    sys.path.insert(0, os.path.join(core.REPO_DIR, 'src'))
    deps = os.path.join(core.VERIF_DIR, '.deps')
    if deps not in sys.path:
        sys.path.append(deps)
    import atheris

    with atheris.instrument_imports(include=['hpl']):
        import hpl.parser  # noqa
        import hpl.rewrite  # noqa
    from hplverif import lib
    from hplverif.checks import c07

    vocab = list(c07.VOCAB) + ['globally: no a {', '}', ' within 1 s', '# id: p ', 'forall i in xs: @i', '(a or b)', 'x > 0']
    seen = set()
    stats = {'execs': 0, 'beyond_lexer': 0, 'accepted': 0}

    def one(data):
        if not data:
            return
        kind = lib.ENTRY_POINTS[data[0] % 5]
        toks = [vocab[b % len(vocab)] for b in data[1:40]]
        text = ' '.join(toks)
        stats['execs'] += 1
        if stats['execs'] % 500 == 0 or stats['execs'] >= runs - 1:
            with open(findings + '.stats', 'w') as f:  # libFuzzer ends the process without running finalisers
                json.dump(stats, f)
        k, r = c07.guarded_outcome(kind, text)
        try:
            res = c07.check_outcome(kind, text, k, r, {'kind': kind, 'text': text})
            if res != 'lexer-reject':
                stats['beyond_lexer'] += 1
            if res == 'accepted':
                stats['accepted'] += 1
        except core.Violation as v:
            if v.sig not in seen:
                seen.add(v.sig)
                with open(findings, 'a') as f:
                    f.write(json.dumps({'sig': v.sig, 'input': v.input, 'message': v.message}) + '\n')

    os.makedirs(corpus, exist_ok=True)
    atheris.Setup([sys.argv[0], f'-runs={runs}', f'-seed={seed or 1}', '-max_len=40', '-verbosity=0', '-print_final_stats=0', corpus], one)
    atheris.Fuzz()


if __name__ == '__main__':
    main()
