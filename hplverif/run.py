# Entry point: python -m hplverif.run <ID> [--tier quick|thorough]
import argparse
import importlib
import os
import sys
import traceback

from hplverif import core


def main(argv=None):
    ap = argparse.ArgumentParser()
    ap.add_argument('pid')
    ap.add_argument('--tier', default=os.environ.get('VERIF_TIER', 'quick'), choices=('quick', 'thorough'))
    ap.add_argument('--shards', type=int, default=None)
    args = ap.parse_args(argv)
    core.bootstrap('hplverif.run')
    pid = args.pid.upper()
    seed = core.env_seed()
    try:
        mod = importlib.import_module(f'hplverif.checks.{pid.lower()}')
        ctx = core.Ctx(pid, args.tier, seed)
        if args.shards is not None:
            ctx.shards_override = args.shards
        from hplverif import regress

        if hasattr(mod, 'selftest'):
            mod.selftest()
        regress.replay_regressions(ctx, mod)
        mod.run(ctx)
        for v in ctx.violations:
            if v['sub'] not in getattr(mod, 'SUBS', {}):
                raise core.HarnessError(f"violation with sub-check {v['sub']!r} cannot be replayed (not in SUBS)")
        rc = core.finish(
            ctx,
            rule=mod.RULE,
            level=getattr(mod, 'LEVEL', 'exploration'),
            assumptions=getattr(mod, 'ASSUMPTIONS', ()),
            extra=getattr(mod, 'extra_evidence', lambda c: None)(ctx),
        )
    except core.HarnessError as e:
        print(f'HARNESS-ERROR: {pid}: {e}')
        return core.EXIT_HARNESS
    except Exception:
        print(f'HARNESS-ERROR: {pid}: unexpected exception in the harness')
        traceback.print_exc()
        return core.EXIT_HARNESS
    return rc


if __name__ == '__main__':
    sys.exit(main())
