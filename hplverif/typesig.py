# T-sig: an independent transcription of HPL's type signatures as bit masks over
# the seven base types, a well-typedness invariant over library ASTs (C03), and
# schema resolution of references (C04, C05, C17).

from hplverif import astx, mast

B, N, S, A, R, SET, M = 1, 2, 4, 8, 16, 32, 64
PRIM = B | N | S
ITEM = PRIM | M
COMPOUND = A | R | SET
ANY = 127
BIT_NAMES = {B: 'bool', N: 'number', S: 'string', A: 'array', R: 'range', SET: 'set', M: 'message'}


def mask_name(m):
    return '|'.join(n for b, n in BIT_NAMES.items() if m & b) or 'none'


UNARY = {'not': (B, B), '-': (N, N)}
BINARY = {}
for _op in ('+', '-', '*', '/', '**'):
    BINARY[_op] = (N, N, N)
for _op in ('and', 'or', 'implies', 'iff'):
    BINARY[_op] = (B, B, B)
for _op in ('<', '<=', '>', '>='):
    BINARY[_op] = (N, N, B)
BINARY['='] = (PRIM, PRIM, B)
BINARY['!='] = (PRIM, PRIM, B)
BINARY['in'] = (PRIM, COMPOUND, B)

# function -> list of overloads (fixed parameter masks, variadic mask or None, result mask)
FUNCTIONS = {
    'abs': [((N,), None, N)],
    'bool': [((PRIM,), None, B)],
    'int': [((PRIM,), None, N)],
    'float': [((PRIM,), None, N)],
    'str': [((PRIM,), None, S)],
    'len': [((COMPOUND,), None, N)],
    'sum': [((COMPOUND,), None, N)],
    'prod': [((COMPOUND,), None, N)],
    'log': [((N, N), None, N)],
    'atan2': [((N, N), None, N)],
}
for _f in ('sqrt', 'ceil', 'floor', 'sin', 'cos', 'tan', 'asin', 'acos', 'atan', 'deg', 'rad'):
    FUNCTIONS[_f] = [((N,), None, N)]
for _f in ('max', 'min', 'gcd'):
    FUNCTIONS[_f] = [((COMPOUND,), None, N), ((N, N), N, N)]
for _f in ('roll', 'pitch', 'yaw'):
    FUNCTIONS[_f] = [((M,), None, N), ((N, N, N, N), None, N)]


def fn_result(name):
    r = 0
    for _p, _v, res in FUNCTIONS[name]:
        r |= res
    return r


def fn_param_masks(name, arg_masks):
    """Per argument: union of the parameter masks of the overloads that accept the call (None when none does)."""
    n = len(arg_masks)
    ok = []
    for params, var, _res in FUNCTIONS[name]:
        if len(params) > n or (len(params) < n and var is None):
            continue
        ps = list(params) + [var] * (n - len(params))
        if all(a & p for a, p in zip(arg_masks, ps)):
            ok.append(ps)
    if not ok:
        return None
    return [_union(ps[i] for ps in ok) for i in range(n)]


def _union(xs):
    r = 0
    for x in xs:
        r |= x
    return r


###############################################################################
# Invariant over library ASTs (C03)
###############################################################################


def dt(node):
    return node.data_type.value


def check_ast(node, is_predicate_root=False):
    """List of violations of the well-typedness invariant in an expression / predicate AST."""
    out = []
    c = astx.cname(node)
    if c in ('HplVacuousTruth', 'HplContradiction'):
        return out
    if c == 'HplPredicateExpression':
        e = node.expression
        if dt(e) != B:
            out.append(f'predicate root has type {mask_name(dt(e))}, expected exactly bool: {e}')
        out += check_ast(e)
        out += check_reference_groups(e)
        return out
    _check_node(node, out, {})
    return out


def _check_node(n, out, binders):
    c = astx.cname(n)
    t = dt(n)

    def bad(msg):
        out.append(f'{msg}: {str(n)[:120]} [{c}]')

    if t == 0:
        bad('empty type set')
    if c == 'HplLiteral':
        v = n.value
        want = B if (v is True or v is False) else (S if isinstance(v, str) else N)
        if t != want:
            bad(f'literal typed {mask_name(t)}, expected {mask_name(want)}')
    elif c == 'HplThisMessage':
        if t != M:
            bad(f'current message typed {mask_name(t)}')
    elif c == 'HplVarReference':
        if t & ~ITEM:
            bad(f'variable typed {mask_name(t)}, outside item')
        name = n.token[1:]
        if name in binders:
            elem = binders[name]
            if not (t & elem):
                bad(f'bound variable @{name} typed {mask_name(t)}, incompatible with the element type {mask_name(elem)} of its domain')
    elif c == 'HplSet':
        if t != SET:
            bad(f'set typed {mask_name(t)}')
        for v in n.values:
            if dt(v) & ~PRIM:
                bad(f'set element typed {mask_name(dt(v))}, outside primitive')
    elif c == 'HplRange':
        if t != R:
            bad(f'range typed {mask_name(t)}')
        for v in (n.min_value, n.max_value):
            if dt(v) & ~N:
                bad(f'range bound typed {mask_name(dt(v))}, outside number')
    elif c == 'HplQuantifier':
        if t != B:
            bad(f'quantifier typed {mask_name(t)}')
        if dt(n.domain) & ~COMPOUND:
            bad(f'quantifier domain typed {mask_name(dt(n.domain))}, outside array|range|set')
        if dt(n.condition) & ~B:
            bad(f'quantifier body typed {mask_name(dt(n.condition))}, outside bool')
    elif c == 'HplUnaryOperator':
        p, r = UNARY[n.operator.token]
        if t != r:
            bad(f'operator result typed {mask_name(t)}, declared {mask_name(r)}')
        if dt(n.operand) & ~p:
            bad(f'operand typed {mask_name(dt(n.operand))}, outside {mask_name(p)}')
    elif c == 'HplBinaryOperator':
        p1, p2, r = BINARY[n.operator.token]
        if t != r:
            bad(f'operator result typed {mask_name(t)}, declared {mask_name(r)}')
        if dt(n.operand1) & ~p1:
            bad(f'left operand typed {mask_name(dt(n.operand1))}, outside {mask_name(p1)}')
        if dt(n.operand2) & ~p2:
            bad(f'right operand typed {mask_name(dt(n.operand2))}, outside {mask_name(p2)}')
        if n.operator.token in ('=', '!=') and dt(n.operand1) != dt(n.operand2):
            bad(f'the two sides of {n.operator.token} carry different type sets {mask_name(dt(n.operand1))} / {mask_name(dt(n.operand2))}')
    elif c == 'HplFunctionCall':
        name = n.function.name
        if name not in FUNCTIONS:
            bad(f'unknown function {name}')
        else:
            if t != fn_result(name):
                bad(f'call result typed {mask_name(t)}, declared {mask_name(fn_result(name))}')
            masks = [dt(a) for a in n.arguments]
            pm = fn_param_masks(name, masks)
            if pm is None:
                bad(f'no overload of {name} accepts argument types {[mask_name(m) for m in masks]}')
            else:
                for a, p in zip(n.arguments, pm):
                    if dt(a) & ~p:
                        bad(f'argument {a} typed {mask_name(dt(a))}, outside the parameter type {mask_name(p)}')
    elif c == 'HplFieldAccess':
        if t & ~(ITEM | A):
            bad(f'field access typed {mask_name(t)}')
        if dt(n.message) & ~M:
            bad(f'accessed object typed {mask_name(dt(n.message))}, outside message')
    elif c == 'HplArrayAccess':
        if t & ~(ITEM | A):
            bad(f'index access typed {mask_name(t)}')
        if dt(n.array) & ~A:
            bad(f'indexed object typed {mask_name(dt(n.array))}, outside array')
        if dt(n.index) & ~N:
            bad(f'index typed {mask_name(dt(n.index))}, outside number')
    else:
        bad('unexpected node class')
    if c == 'HplQuantifier':
        _check_node(n.domain, out, binders)
        d = n.domain
        dc = astx.cname(d)
        if dc == 'HplSet':
            elem = _union(dt(v) for v in d.values)
        elif dc == 'HplRange':
            elem = N
        else:
            elem = PRIM
        _check_node(n.condition, out, dict(binders, **{n.variable: elem}))
    else:
        for k in astx.kids(n):
            _check_node(k, out, binders)


def check_reference_groups(expr):
    """All occurrences of the same reference (same path, same binder) share at least one possible type."""
    out = []
    groups = {}

    def rec(n, scope):
        c = astx.cname(n)
        if c == 'HplQuantifier':
            rec(n.domain, scope)
            rec(n.condition, dict(scope, **{n.variable: id(n)}))
            return
        if c in ('HplFieldAccess', 'HplArrayAccess', 'HplVarReference'):
            # a reference is identified by how it is written: `q[02]` and `q[002]` are two references (the printed form
            # identifies a reference, C06), like `q[1]` and `q[0 + 1]` - which element they denote is not a matter of typing
            spelling = tuple(str.__str__(x.token) for x in astx.preorder(n) if astx.cname(x) == 'HplLiteral')
            key = repr((_scoped_model(n, scope), spelling))
            groups.setdefault(key, []).append(n)
        for k in astx.kids(n):
            rec(k, scope)

    rec(expr, {})
    for key, nodes in groups.items():
        t = ANY
        for n in nodes:
            t &= dt(n)
        if not t:
            out.append(f'occurrences of the reference {nodes[0]} have no common type: {[mask_name(dt(n)) for n in nodes]}')
    return out


def _scoped_model(n, scope):
    m = astx.to_model(n)
    return mast.map_expr(m, lambda x: ('var', x[1], scope.get(x[1])) if x[0] == 'var' and len(x) == 2 else x) if m[0] != 'var' else ('var', m[1], scope.get(m[1]))


###############################################################################
# Schemas: resolution of references
###############################################################################


def ftype_mask(ft):
    return {'bool': B, 'num': N, 'str': S, 'arr': A, 'msg': M}[ft[0]]


class Unresolved(Exception):
    pass


def resolve(ref, this_schema, alias_schemas, qvars=None):
    """Schema type (ftype) of a model reference; raises Unresolved with the reason."""
    qvars = qvars or {}
    k = ref[0]
    if k == 'this':
        if this_schema is None:
            raise Unresolved('no current message')
        return ('msg', this_schema)
    if k == 'var':
        if ref[1] in qvars:
            return {'B': ('bool',), 'N': ('num', 'float64'), 'S': ('str',)}[qvars[ref[1]]]
        if ref[1] in alias_schemas:
            return ('msg', alias_schemas[ref[1]])
        raise Unresolved(f'unknown variable @{ref[1]}')
    if k == 'field':
        base = resolve(ref[1], this_schema, alias_schemas, qvars)
        if base[0] != 'msg':
            raise Unresolved(f'field {ref[2]} of a non-message')
        sc = base[1]
        if ref[2] in sc['fields']:
            return sc['fields'][ref[2]]
        if ref[2] in sc['consts']:
            return sc['consts'][ref[2]][0]
        raise Unresolved(f'unknown field {ref[2]}')
    if k == 'index':
        base = resolve(ref[1], this_schema, alias_schemas, qvars)
        if base[0] != 'arr':
            raise Unresolved('index into a non-array')
        idx = ref[2]
        if base[2] >= 0 and idx[0] == 'lit' and idx[1] == 'int' and int(idx[2]) >= base[2]:
            raise Unresolved(f'index {idx[2]} out of range {base[2]}')
        return base[1]
    raise Unresolved(f'not a reference: {ref!r}')


def references_with_scope(m, qvars=None):
    """[(reference model, {bound var: elem type code or None})] for every maximal reference in expression m."""
    out = []

    def rec(n, scope, is_base):
        k = n[0]
        if k in ('var', 'field', 'index') and not is_base:
            out.append((n, dict(scope)))
        if k == 'field':
            rec(n[1], scope, True)
        elif k == 'index':
            rec(n[1], scope, True)
            rec(n[2], scope, False)
        elif k == 'q':
            rec(n[3], scope, False)
            rec(n[4], dict(scope, **{n[2]: None}), False)
        else:
            for c in mast.children(n):
                rec(c, scope, False)

    rec(m, dict(qvars or {}), False)
    return out
