# Access to the library under test: parser objects created once per process,
# outcome classification, reference (Earley) recognisers built from the .lark
# sources, and a parser built from the .lark sources for the grammar.py
# consistency differential.

import os
import re

from hplverif import core

_cache = {}

ENTRY_POINTS = ('specification', 'property', 'predicate', 'condition', 'expression')


def parser(kind):
    if kind not in _cache:
        from hpl import parser as hp

        _cache[kind] = {
            'specification': hp.specification_parser,
            'property': hp.property_parser,
            'predicate': hp.predicate_parser,
            'condition': hp.condition_parser,
            'expression': hp.expression_parser,
        }[kind]()
    return _cache[kind]


def fresh_parser(kind):
    from hpl import parser as hp

    return {
        'specification': hp.specification_parser,
        'property': hp.property_parser,
        'predicate': hp.predicate_parser,
        'condition': hp.condition_parser,
        'expression': hp.expression_parser,
    }[kind]()


def nest(items, shape, combine):
    """Combine a list with a binary constructor in the nesting given by `shape`: 0 is the right-leaning chain the
    parser builds, (a, (b, (c, d))); other values split at other positions (left-leaning, balanced, mixed)."""
    n = len(items)
    if n == 1:
        return items[0]
    if not shape:
        return combine(items[0], nest(items[1:], 0, combine))
    k = 1 + shape % (n - 1)
    rest = shape // (n - 1)
    return combine(nest(items[:k], rest, combine), nest(items[k:], rest // 3, combine))


def renest_event(ev, shape):
    """The same alternatives in the same source order, nested differently (API-built)."""
    from hpl.ast import HplEventDisjunction

    flat = []

    def walk(e):
        if type(e).__name__ == 'HplEventDisjunction':
            walk(e.event1)
            walk(e.event2)
        else:
            flat.append(e)

    if ev is None:
        return None
    walk(ev)
    return nest(flat, shape, HplEventDisjunction)


def parse(kind, text):
    return parser(kind).parse(text)


def outcome(kind, text, p=None):
    """('ast', ast) | ('syntax'|'sanity'|'type'|'value', exc) | ('other', exc)"""
    from hpl.errors import HplSanityError, HplSyntaxError

    armed = core.arm_call_limit()
    try:
        return _outcome(kind, text, p, HplSanityError, HplSyntaxError)
    finally:
        core.disarm_call_limit(armed)


def _outcome(kind, text, p, HplSanityError, HplSyntaxError):
    try:
        return ('ast', (p or parser(kind)).parse(text))
    except HplSyntaxError as e:
        return ('syntax', e)
    except HplSanityError as e:
        return ('sanity', e)
    except TypeError as e:
        return ('type', e)
    except ValueError as e:
        return ('value', e)
    except RecursionError as e:
        return ('recursion', e)
    except Exception as e:  # noqa
        return ('other', e)


###############################################################################
# Grammars from the .lark sources
###############################################################################

_PREAMBLE = re.compile(r'\s*//\s*SPDX-License-Identifier:[^\n]+\s*//\s*Copyright[^\n]+\s*')


def _read_lark(name):
    path = os.path.join(core.REPO_DIR, 'src', 'hpl', 'grammars', name)
    with open(path, encoding='utf8') as f:
        text = f.read()
    m = _PREAMBLE.match(text)
    return text[m.end() :] if m else text


def lark_sources():
    if 'sources' not in _cache:
        tokens = _read_lark('tokens.lark')
        preds = _read_lark('predicates.lark')
        props = _read_lark('properties.lark')
        files = _read_lark('files.lark')
        _cache['sources'] = {
            'predicate_grammar': f'\n{preds}\n{tokens}\n',
            'hpl_grammar': f'\n{files}\n{props}\n{preds}\n{tokens}\n',
        }
    return _cache['sources']


START = {
    'specification': ('hpl_grammar', 'hpl_file'),
    'property': ('hpl_grammar', 'hpl_property'),
    'predicate': ('predicate_grammar', 'hpl_predicate'),
    'condition': ('predicate_grammar', 'hpl_expression'),
    'expression': ('predicate_grammar', 'hpl_expression'),
}


def earley(kind):
    """Recogniser for the documented grammar: Earley with a dynamic lexer (all tokenisations)."""
    key = ('earley', kind)
    if key not in _cache:
        from lark import Lark

        g, start = START[kind]
        _cache[key] = Lark(lark_sources()[g], parser='earley', lexer='dynamic', start=start, ambiguity='resolve')
    return _cache[key]


def earley_accepts(kind, text):
    from lark.exceptions import LarkError

    try:
        earley(kind).parse(text)
        return True
    except LarkError:
        return False


def lark_file_parser(kind):
    """An HplParser built from the .lark sources with the library's own options and transformer."""
    key = ('fromlark', kind)
    if key not in _cache:
        from hpl.ast.predicates import predicate_from_expression
        from hpl.parser import HplParser

        g, start = START[kind]
        tr = predicate_from_expression if kind == 'condition' else None
        _cache[key] = HplParser.from_grammar(lark_sources()[g], start=start, transform=tr)
    return _cache[key]


def rebuild(node, f):
    """A copy of an expression / predicate tree made through the API: children first (but() on the parent when a child
    changed), then f(node) - f returns the node itself or its replacement."""
    from hplverif import astx

    kw = {}
    for name, how in astx.SLOTS.get(astx.cname(node), ()):
        old = getattr(node, name)
        if how == 'many':
            new = tuple(rebuild(x, f) for x in old)
            if any(a is not b for a, b in zip(new, old)):
                kw[name] = new
        elif old is not None:
            new = rebuild(old, f)
            if new is not old:
                kw[name] = new
    if kw:
        node = node.but(**kw)
    return f(node)


WIDENINGS = {
    0: ('atan2', lambda e, lit: (lit(1), e)),
    1: ('max', lambda e, lit: (lit(1), lit(2), e)),
    2: ('log', lambda e, lit: (e, lit(2))),
    3: ('min', lambda e, lit: (lit(3), e, lit(1), e)),
    4: ('gcd', lambda e, lit: (lit(4), lit(6), e)),
}
ONE_NUMBER_FUNCTIONS = ('abs', 'sqrt', 'ceil', 'floor', 'sin', 'cos', 'tan', 'asin', 'acos', 'atan', 'deg', 'rad')


def widen_calls(a, variant):
    """Every call of a one-number function becomes a call with several arguments (only the API builds those: the grammar
    has one-argument calls) that holds the old argument behind literals: abs(e) -> atan2(1, e), max(1, 2, e), ..."""
    from hpl.ast import HplFunctionCall, HplLiteral
    from hplverif import astx

    fn, mk = WIDENINGS[variant % len(WIDENINGS)]

    def f(n):
        if astx.cname(n) == 'HplFunctionCall' and len(n.arguments) == 1 and str.__str__(n.function.name) in ONE_NUMBER_FUNCTIONS:
            return HplFunctionCall(fn, mk(n.arguments[0], HplLiteral.number))
        return n

    return rebuild(a, f)
