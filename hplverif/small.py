# G-small: small-scope exhaustive enumeration of model trees over tiny alphabets.
# Index-addressable (so a tier can take a deterministic slice and shards can split the range).

import itertools

from hplverif.mast import FALSE, TRUE, binop, own

SMALL_THIS = {
    'fields': {
        'x': ('num', 'int32'),
        'p': ('bool',),
        'q': ('bool',),
        'xs': ('arr', ('num', 'int32'), -1),
        's': ('str',),
    },
    'consts': {},
}
SMALL_ALIASES = {'A': {'fields': {'y': ('num', 'float64'), 'b': ('bool',), 'ys': ('arr', ('num', 'int32'), -1)}, 'consts': {}}}

X = own('x')
AY = ('field', ('var', 'A'), 'y')
P, Q = own('p'), own('q')
AB = ('field', ('var', 'A'), 'b')
XS = own('xs')


def L(n):
    return ('lit', 'int', str(n))


NUM_ATOMS = [X, AY, L(0), L(1), L(2)]
ARITH = ['+', '-', '*', '/', '**']
RELS = ['=', '!=', '<', '<=', '>', '>=']
CONN = ['and', 'or', 'implies', 'iff']
BOOL_ATOMS = [P, Q, binop('>', X, L(0)), TRUE, FALSE, AB]
AYS = ('field', ('var', 'A'), 'ys')
DOMAINS = [XS, ('set', (L(1), L(2))), ('range', L(0), L(1), False, False), AYS, ('set', (AY, L(1))),
           ('range', L(0), L(1), True, True), ('range', X, L(1), False, True)]  # the last two can be empty by exclusivity only


def num_terms(depth):
    """All numeric terms up to the given depth (lists are small enough to materialise for depth <= 1)."""
    if depth == 0:
        return list(NUM_ATOMS)
    sub = num_terms(depth - 1)
    out = list(sub)
    out += [('un', '-', t) for t in sub]
    out += [binop(op, a, b) for op in ARITH for a in sub for b in sub]
    # de-duplicate while keeping order
    seen = set()
    res = []
    for t in out:
        if t not in seen:
            seen.add(t)
            res.append(t)
    return res


def bool_terms(depth):
    if depth == 0:
        return list(BOOL_ATOMS)
    sub = bool_terms(depth - 1)
    out = list(sub)
    out += [('un', 'not', t) for t in sub]
    out += [binop(op, a, b) for op in CONN for a in sub for b in sub]
    seen = set()
    res = []
    for t in out:
        if t not in seen:
            seen.add(t)
            res.append(t)
    return res


def quant_terms(bodies_with_var, bodies_plain):
    """Quantified terms: both quantifiers x three domains x bodies that use @i (optionally joined with a plain body)."""
    out = []
    for qk in ('forall', 'exists'):
        for dom in DOMAINS:
            for b in bodies_with_var:
                out.append(('q', qk, 'i', dom, b))
                for pl in bodies_plain:
                    for op in ('and', 'or', 'implies'):
                        out.append(('q', qk, 'i', dom, binop(op, b, pl)))
                        out.append(('q', qk, 'i', dom, binop(op, pl, b)))
    return out


VAR_BODIES = [
    binop('>', ('var', 'i'), L(0)),
    binop('=', ('var', 'i'), X),
    binop('<', ('var', 'i'), AY),
    ('un', 'not', binop('>', ('var', 'i'), L(1))),
]
PLAIN_BODIES = [P, binop('>', X, L(0)), AB]


class Family:
    """A lazily indexed family of terms: len() and __getitem__ without materialising products."""

    def __init__(self, name, parts, build):
        self.name = name
        self.parts = parts
        self.build = build
        self.sizes = [len(p) for p in parts]
        n = 1
        for s in self.sizes:
            n *= s
        self.n = n

    def __len__(self):
        return self.n

    def __getitem__(self, idx):
        choice = []
        for s in reversed(self.sizes):
            choice.append(idx % s)
            idx //= s
        choice.reverse()
        return self.build(*[p[c] for p, c in zip(self.parts, choice)])


def families():
    n1 = num_terms(1)
    b1 = bool_terms(1)
    quants = quant_terms(VAR_BODIES, PLAIN_BODIES)
    fams = [
        Family('num_depth2', [ARITH, n1, n1], lambda op, a, b: binop(op, a, b)),
        Family('num_neg_depth2', [n1], lambda a: ('un', '-', a)),
        Family('cmp_depth1', [RELS, n1, n1], lambda op, a, b: binop(op, a, b)),
        Family('bool_depth2', [CONN, b1, b1], lambda op, a, b: binop(op, a, b)),
        Family('bool_not_depth2', [b1], lambda a: ('un', 'not', a)),
        Family('quant', [quants], lambda a: a),
        Family('quant_not', [quants], lambda a: ('un', 'not', a)),
        Family('quant_not2', [quants], lambda a: ('un', 'not', ('un', 'not', a))),
        Family('quant_not3', [quants], lambda a: ('un', 'not', ('un', 'not', ('un', 'not', a)))),
        Family('bool_not2', [bool_terms(1)], lambda a: ('un', 'not', ('un', 'not', a))),
        Family('quant_body_not', [['forall', 'exists'], DOMAINS, VAR_BODIES, PLAIN_BODIES, ['and', 'or', 'implies']],
               lambda qk, dom, b, pl, op: ('q', qk, 'i', dom, ('un', 'not', binop(op, b, pl)))),
        Family('quant_conn', [CONN, quants, bool_terms(0)], lambda op, a, b: binop(op, a, b)),
        Family('quant_conn_r', [CONN, bool_terms(0), quants], lambda op, a, b: binop(op, a, b)),
        Family('bool_cmp', [CONN, [binop(r, a, b) for r in ('=', '<', '>=') for a in NUM_ATOMS for b in NUM_ATOMS], bool_terms(0)], lambda op, a, b: binop(op, a, b)),
    ]
    return fams


def total(fams):
    return sum(len(f) for f in fams)


def nth(fams, idx):
    for f in fams:
        if idx < len(f):
            return f.name, f[idx]
        idx -= len(f)
    raise IndexError(idx)


def boolean_family_names():
    return {'cmp_depth1', 'bool_depth2', 'bool_not_depth2', 'quant', 'quant_not', 'quant_not2', 'quant_not3', 'bool_not2', 'quant_body_not', 'quant_conn', 'quant_conn_r', 'bool_cmp'}
