# G-small: small-scope exhaustive enumeration of model trees over tiny alphabets.
# Index-addressable (so a tier can take a deterministic slice and shards can split the range).

import itertools

from hplverif.mast import FALSE, TRUE, binop, own

SMALL_THIS = {
    'fields': {
        'x': ('num', 'int32'),
        'z': ('num', 'float64'),
        'p': ('bool',),
        'q': ('bool',),
        'xs': ('arr', ('num', 'int32'), -1),
        's': ('str',),
    },
    'consts': {},
}
SMALL_ALIASES = {'A': {'fields': {'y': ('num', 'float64'), 'b': ('bool',), 'ys': ('arr', ('num', 'int32'), -1)}, 'consts': {}}}

X = own('x')
AY = ('field', ('var', 'A'), 'y')
P, Q = own('p'), own('q')
AB = ('field', ('var', 'A'), 'b')
XS = own('xs')


def L(n):
    return ('lit', 'int', str(n))


NUM_ATOMS = [X, AY, L(0), L(1), L(2)]
ARITH = ['+', '-', '*', '/', '**']
RELS = ['=', '!=', '<', '<=', '>', '>=']
CONN = ['and', 'or', 'implies', 'iff']
BOOL_ATOMS = [P, Q, binop('>', X, L(0)), TRUE, FALSE, AB]
AYS = ('field', ('var', 'A'), 'ys')
DOMAINS = [XS, ('set', (L(1), L(2))), ('range', L(0), L(1), False, False), AYS, ('set', (AY, L(1))),
           ('range', L(0), L(1), True, True), ('range', X, L(1), False, True)]  # the last two can be empty by exclusivity only


def num_terms(depth):
    """All numeric terms up to the given depth (lists are small enough to materialise for depth <= 1)."""
    if depth == 0:
        return list(NUM_ATOMS)
    sub = num_terms(depth - 1)
    out = list(sub)
    out += [('un', '-', t) for t in sub]
    out += [binop(op, a, b) for op in ARITH for a in sub for b in sub]
    # de-duplicate while keeping order
    seen = set()
    res = []
    for t in out:
        if t not in seen:
            seen.add(t)
            res.append(t)
    return res


def bool_terms(depth):
    if depth == 0:
        return list(BOOL_ATOMS)
    sub = bool_terms(depth - 1)
    out = list(sub)
    out += [('un', 'not', t) for t in sub]
    out += [binop(op, a, b) for op in CONN for a in sub for b in sub]
    seen = set()
    res = []
    for t in out:
        if t not in seen:
            seen.add(t)
            res.append(t)
    return res


def quant_terms(bodies_with_var, bodies_plain):
    """Quantified terms: both quantifiers x three domains x bodies that use @i (optionally joined with a plain body)."""
    out = []
    for qk in ('forall', 'exists'):
        for dom in DOMAINS:
            for b in bodies_with_var:
                out.append(('q', qk, 'i', dom, b))
                for pl in bodies_plain:
                    for op in ('and', 'or', 'implies'):
                        out.append(('q', qk, 'i', dom, binop(op, b, pl)))
                        out.append(('q', qk, 'i', dom, binop(op, pl, b)))
    return out


VAR_BODIES = [
    binop('>', ('var', 'i'), L(0)),
    binop('=', ('var', 'i'), X),
    binop('<', ('var', 'i'), AY),
    ('un', 'not', binop('>', ('var', 'i'), L(1))),
]
PLAIN_BODIES = [P, binop('>', X, L(0)), AB, TRUE, FALSE]


def F(text):
    return ('lit', 'float', text)


# Algebraic-law families: the shapes on which an algebraic simplifier typically has (or grows) rules -
# power towers and products of powers with integer, negative and fractional exponents; linear terms
# with two constants (re-association, cancelling, solving a comparison for the variable, where the sign
# of a multiplier matters); pairs of comparisons over the same operands in either order under a connective.
POW_BASES = [X, AY, ('un', '-', X), binop('+', X, L(1)), L(2), binop('*', X, AY), L(0)]
POW_EXPS = [L(0), L(1), L(2), L(3), ('un', '-', L(1)), ('un', '-', L(2)), F('0.5'), F('1.5')]
LIN_VARS = [X, AY, ('un', '-', X)]
LIN_CONSTS = [L(0), L(1), L(2), ('un', '-', L(1)), F('0.5'), L(3), F('0.0'), F('1.0')]
LIN_OPS = ['+', '-', '*', '/']
Z = own('z')
CMP_ATOMS = [X, Z, AY, L(0), L(1)]
CMP_ALL = [binop(r, a, b) for r in RELS for a in CMP_ATOMS for b in CMP_ATOMS]

VARI_BODIES = [binop('>', ('var', 'i'), L(0)), binop('=', ('var', 'i'), X)]
VARJ_BODIES = [binop('<', ('var', 'j'), AY), binop('>', ('var', 'j'), ('var', 'i'))]
NEST_DOM1 = [XS, AYS, ('set', (L(1), L(2)))]
NEST_DOM2 = [XS, AYS, ('range', L(0), L(1), False, False), ('range', L(0), ('var', 'i'), False, False), ('set', (('var', 'i'), L(1)))]


def _nested(qk1, qk2, d1, d2, vi, vj, pl, op1, op2, form):
    if form == 0:
        body = binop(op1, vi, binop(op2, vj, pl))
    elif form == 1:
        body = binop(op1, binop(op2, vj, pl), vi)
    elif form == 2:
        body = binop(op1, binop(op2, vi, pl), vj)
    else:
        body = ('un', 'not', binop(op1, vj, binop(op2, pl, vi)))
    return ('q', qk1, 'i', d1, ('q', qk2, 'j', d2, body))


def _nested_outer(qk1, qk2, d1, d2, vi, vj, pl, op1, op2):
    # the outer body is itself a connective around the inner quantifier
    return ('q', qk1, 'i', d1, binop(op1, binop(op2, vi, pl), ('q', qk2, 'j', d2, vj)))


# Aggregates and membership over literal ranges / sets: every bound combination incl. exclusive bounds that hit 0,
# one-point and empty ranges - where constant folding has to get inclusive/exclusive arithmetic right.
AGG_FUNCS = ['len', 'sum', 'prod', 'max', 'min']
RANGE_LO = [('un', '-', L(3)), ('un', '-', L(1)), L(0), L(1), L(2)]
RANGE_HI = [('un', '-', L(1)), L(0), L(1), L(3), L(5)]
EXCL = [(False, False), (True, False), (False, True), (True, True)]
IN_VALUES = [('un', '-', L(1)), L(0), L(1), L(3), L(5), F('0.5'), X]
SET_ELEMS = [L(0), L(1), L(2), ('un', '-', L(1)), L(5)]


def _sets():
    out = []
    for n in (1, 2, 3):
        for combo in itertools.combinations(SET_ELEMS, n):
            out.append(('set', tuple(combo)))
    return out


LIT_SETS = _sets()


FIELD_CMPS = [binop(r, a, b) for r in RELS for a in (X, own('z')) for b in (X, own('z'))]
NEG_ATOMS = [P, binop('>', X, L(0)), AB, binop('>', AY, L(0))]
NEG_OPS = ['or', 'implies', 'and']
VARI3 = [binop('>', ('var', 'i'), L(0)), binop('<', ('var', 'i'), L(2)), binop('!=', ('var', 'i'), X), AB, P]


def _neg_nest(op1, op2, a, b, c, form):
    if form == 0:
        return ('un', 'not', binop(op1, binop(op2, a, b), c))
    if form == 1:
        return ('un', 'not', binop(op1, a, ('un', 'not', binop(op2, b, c))))
    if form == 2:
        return ('un', 'not', binop(op1, ('un', 'not', binop(op2, a, b)), c))
    return binop(op1, ('un', 'not', binop(op2, a, b)), ('un', 'not', c))


def _conj3(qk, dom, a, b, c, form):
    # a universal / existential over a conjunction (or disjunction) of three parts, in both associations
    if form == 0:
        body = binop('and', a, binop('and', b, c))
    elif form == 1:
        body = binop('and', binop('and', a, b), c)
    elif form == 2:
        body = binop('and', a, binop('or', b, c))
    else:
        body = binop('or', binop('and', a, b), c)
    return ('q', qk, 'i', dom, body)


class Family:
    """A lazily indexed family of terms: len() and __getitem__ without materialising products."""

    def __init__(self, name, parts, build):
        self.name = name
        # how much denser than the tier's stride this family is sliced: the law tables are small and carry most rules
        self.density = 'full' if name.startswith(('agg_', 'in_')) else 10 if name.startswith(('pow_', 'lin_', 'quant_lit', 'dense_')) else 1
        self.parts = parts
        self.build = build
        self.sizes = [len(p) for p in parts]
        n = 1
        for s in self.sizes:
            n *= s
        self.n = n

    def __len__(self):
        return self.n

    def __getitem__(self, idx):
        choice = []
        for s in reversed(self.sizes):
            choice.append(idx % s)
            idx //= s
        choice.reverse()
        return self.build(*[p[c] for p, c in zip(self.parts, choice)])


def families():
    n1 = num_terms(1)
    b1 = bool_terms(1)
    quants = quant_terms(VAR_BODIES, PLAIN_BODIES)
    fams = [
        Family('num_depth2', [ARITH, n1, n1], lambda op, a, b: binop(op, a, b)),
        Family('num_neg_depth2', [n1], lambda a: ('un', '-', a)),
        Family('cmp_depth1', [RELS, n1, n1], lambda op, a, b: binop(op, a, b)),
        Family('bool_depth2', [CONN, b1, b1], lambda op, a, b: binop(op, a, b)),
        Family('bool_not_depth2', [b1], lambda a: ('un', 'not', a)),
        Family('quant', [quants], lambda a: a),
        Family('quant_not', [quants], lambda a: ('un', 'not', a)),
        Family('quant_not2', [quants], lambda a: ('un', 'not', ('un', 'not', a))),
        Family('quant_not3', [quants], lambda a: ('un', 'not', ('un', 'not', ('un', 'not', a)))),
        Family('bool_not2', [bool_terms(1)], lambda a: ('un', 'not', ('un', 'not', a))),
        Family('quant_body_not', [['forall', 'exists'], DOMAINS, VAR_BODIES, PLAIN_BODIES, ['and', 'or', 'implies']],
               lambda qk, dom, b, pl, op: ('q', qk, 'i', dom, ('un', 'not', binop(op, b, pl)))),
        Family('quant_conn', [CONN, quants, bool_terms(0)], lambda op, a, b: binop(op, a, b)),
        Family('quant_conn_r', [CONN, bool_terms(0), quants], lambda op, a, b: binop(op, a, b)),
        Family('bool_cmp', [CONN, [binop(r, a, b) for r in ('=', '<', '>=') for a in NUM_ATOMS for b in NUM_ATOMS], bool_terms(0)], lambda op, a, b: binop(op, a, b)),
        Family('pow_tower_l', [POW_BASES, POW_EXPS, POW_EXPS], lambda b, e1, e2: binop('**', binop('**', b, e1), e2)),
        Family('pow_tower_r', [POW_BASES, POW_EXPS, POW_EXPS], lambda b, e1, e2: binop('**', b, binop('**', e1, e2))),
        Family('pow_product', [['*', '/', '+', '-'], POW_BASES, POW_EXPS, POW_EXPS], lambda op, b, e1, e2: binop(op, binop('**', b, e1), binop('**', b, e2))),
        Family('pow_of_product', [['*', '/'], POW_BASES, NUM_ATOMS, POW_EXPS], lambda op, a, b, e: binop('**', binop(op, a, b), e)),
        Family('pow_base_const', [POW_EXPS, LIN_VARS, LIN_OPS, LIN_CONSTS], lambda c, v, op, k: binop('**', c, binop(op, v, k))),
        Family('lin_two_consts_l', [LIN_OPS, LIN_OPS, LIN_VARS, LIN_CONSTS, LIN_CONSTS], lambda o1, o2, v, c1, c2: binop(o2, binop(o1, v, c1), c2)),
        Family('lin_two_consts_r', [LIN_OPS, LIN_OPS, LIN_VARS, LIN_CONSTS, LIN_CONSTS], lambda o1, o2, v, c1, c2: binop(o2, c2, binop(o1, c1, v))),
        Family('lin_same_var', [LIN_OPS, LIN_OPS, LIN_VARS, LIN_CONSTS], lambda o1, o2, v, c: binop(o2, binop(o1, v, c), v)),
        Family('lin_cmp_same', [RELS, LIN_OPS, LIN_VARS + [binop('*', X, L(2))], LIN_CONSTS, [0, 1]],
               lambda r, o, v, c, side: binop(r, binop(o, v, c), v) if side == 0 else binop(r, v, binop(o, c, v))),
        Family('lin_cmp', [RELS, LIN_OPS, LIN_VARS, LIN_CONSTS, LIN_CONSTS], lambda r, o, v, c1, c2: binop(r, binop(o, v, c1), c2)),
        Family('lin_cmp_r', [RELS, LIN_OPS, LIN_VARS, LIN_CONSTS, LIN_CONSTS], lambda r, o, v, c1, c2: binop(r, c2, binop(o, c1, v))),
        Family('lin_cmp_both', [RELS, LIN_OPS, LIN_VARS, LIN_VARS, LIN_CONSTS], lambda r, o, v, w, c: binop(r, binop(o, v, c), binop(o, w, c))),
        Family('cmp_pair', [CONN + ['=', '!='], CMP_ALL, CMP_ALL], lambda op, a, b: binop(op, a, b)),
        Family('dense_cmp_pair_fields', [CONN + ['=', '!='], FIELD_CMPS, FIELD_CMPS], lambda op, a, b: binop(op, a, b)),
        Family('dense_neg_nest', [NEG_OPS, NEG_OPS, NEG_ATOMS, NEG_ATOMS, NEG_ATOMS, [0, 1, 2, 3]], _neg_nest),
        Family('dense_quant_conj3', [['forall', 'exists'], [XS, AYS, ('range', L(0), L(1), False, False)], VARI3[:3], VARI3, VARI3, [0, 1, 2, 3]], _conj3),
        Family('cmp_pair_not', [['and', 'or'], CMP_ALL, CMP_ALL], lambda op, a, b: binop(op, a, ('un', 'not', b))),
        Family('agg_conv_lits', [['str', 'int', 'float', 'bool', 'abs', 'len'],
                                 [L(0), L(1), L(2), ('un', '-', L(1)), F('0.0'), F('1.0'), F('0.5'), F('2.0'), TRUE, FALSE,
                                  ('lit', 'str', '"1"'), ('lit', 'str', '"a"'), ('lit', 'str', '""'), ('lit', 'str', '"True"')]],
               lambda f, v: ('call', f, v)),
        Family('agg_range', [AGG_FUNCS, RANGE_LO, RANGE_HI, EXCL], lambda f, lo, hi, ex: ('call', f, ('range', lo, hi, ex[0], ex[1]))),
        Family('agg_range_var', [AGG_FUNCS, [X, binop('+', X, L(1))], RANGE_HI, EXCL], lambda f, lo, hi, ex: ('call', f, ('range', lo, hi, ex[0], ex[1]))),
        Family('agg_set', [AGG_FUNCS + ['gcd'], LIT_SETS], lambda f, st: ('call', f, st)),
        Family('agg_set_var', [AGG_FUNCS, LIT_SETS], lambda f, st: ('call', f, ('set', st[1] + (X,)))),
        Family('in_range', [IN_VALUES, RANGE_LO, RANGE_HI, EXCL], lambda v, lo, hi, ex: binop('in', v, ('range', lo, hi, ex[0], ex[1]))),
        Family('in_set', [IN_VALUES, LIT_SETS], lambda v, st: binop('in', v, st)),
        Family('quant_lit_range', [['forall', 'exists'], RANGE_LO, RANGE_HI, EXCL, VAR_BODIES],
               lambda qk, lo, hi, ex, b: ('q', qk, 'i', ('range', lo, hi, ex[0], ex[1]), b)),
        Family('nested_quant', [['forall', 'exists'], ['forall', 'exists'], NEST_DOM1, NEST_DOM2, VARI_BODIES, VARJ_BODIES, PLAIN_BODIES,
                                ['and', 'or', 'implies'], ['and', 'or', 'implies'], [0, 1, 2, 3]], _nested),
        Family('nested_quant_outer', [['forall', 'exists'], ['forall', 'exists'], NEST_DOM1, NEST_DOM2, VARI_BODIES, VARJ_BODIES, PLAIN_BODIES,
                                      ['and', 'or', 'implies'], ['and', 'or', 'implies']], _nested_outer),
    ]
    return fams


def total(fams):
    return sum(len(f) for f in fams)


def nth(fams, idx):
    for f in fams:
        if idx < len(f):
            return f.name, f[idx]
        idx -= len(f)
    raise IndexError(idx)


def boolean_family_names():
    return {'cmp_depth1', 'bool_depth2', 'bool_not_depth2', 'quant', 'quant_not', 'quant_not2', 'quant_not3', 'bool_not2', 'quant_body_not', 'quant_conn', 'quant_conn_r', 'bool_cmp',
            'lin_cmp', 'lin_cmp_r', 'lin_cmp_both', 'lin_cmp_same', 'cmp_pair', 'cmp_pair_not', 'nested_quant', 'nested_quant_outer',
            'in_range', 'in_set', 'quant_lit_range', 'dense_cmp_pair_fields', 'dense_neg_nest', 'dense_quant_conj3'}  # fmt: skip
