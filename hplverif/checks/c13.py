# C13 Predicate combinators and reference substitutions are semantically exact.

from hplverif import astx, core, ev, gen, lib, mast, sem, values
from hplverif.core import Violation
from hplverif.tape import from_tape

RULE = (
    'four generated families, each evaluated with the reference evaluator on a valuation grid: (a) pairs of predicates '
    '(incl. the vacuous truth and the contradiction): negate() is logical negation, join() is conjunction with identity / '
    'annihilator; (b) predicates and expressions over the current message: replace_this_with_var(e, V) evaluated with V '
    'bound to the message equals e, leaves no current-message reference (own walker), and replace_var_with_this undoes it; '
    '(c) terms over an alias only: replace_var_with_this(e, A) evaluated on A\'s message equals e and leaves no @A; '
    '(d) events `t as A {f}` (parsed and built with HplSimpleEvent.publish): the stored predicate equals the parse of f with '
    '@A. removed, A is not an external reference. Aliases are never captured by a quantifier (documented exclusion). '
    'Non-trivial: the substituted reference occurs >= 2 times or below depth 2 (set element, range bound, index, quantifier '
    'domain, call argument); for (a): both operands non-vacuous. Distinct by text.'
)
ASSUMPTIONS = ['hplverif/ev.py is the meaning of expressions', 'aliases captured by a quantifier binding the same name are excluded (finding F16)']

V = 'V9'


def _rw():
    from hpl import rewrite

    return rewrite


def _pred_model(p):
    return astx.to_model(p)


def _grid(models, inp, limit):
    joint = ('set', tuple(models))
    return [ev.Env(t, v) for t, v in values.valuations(joint, inp.get('this'), inp.get('aliases') or {}, limit)]


def _deep_or_repeated(model, test):
    """Does a node satisfying test occur >= 2 times or below depth 2 in a value slot?"""
    count = 0
    deep = False

    def rec(n, d, slot):
        nonlocal count, deep
        if test(n):
            count += 1
            if slot:
                deep = True
        k = n[0]
        if k == 'field':
            rec(n[1], d + 1, slot)
        elif k == 'index':
            rec(n[1], d + 1, slot)
            rec(n[2], d + 1, True)
        elif k == 'set':
            for v in n[1]:
                rec(v, d + 1, True)
        elif k == 'range':
            rec(n[1], d + 1, True)
            rec(n[2], d + 1, True)
        elif k == 'un':
            rec(n[2], d + 1, slot)
        elif k == 'bin':
            rec(n[2], d + 1, slot)
            rec(n[3], d + 1, slot)
        elif k == 'q':
            rec(n[3], d + 1, True)
            rec(n[4], d + 1, slot)
        elif k == 'call':
            rec(n[2], d + 1, True)
        elif k == 'calln':
            for a in n[2]:
                rec(a, d + 1, True)

    rec(model, 0, False)
    return count >= 2 or deep


###############################################################################
# (a) negate / join
###############################################################################


def sub_combinators(inp, limit=128):
    """inp: {'p': text, 'q': text, 'this', 'aliases'} (condition texts; 'True'/'False' give the vacuous predicates)"""
    k1, p = lib.outcome('condition', inp['p'])
    k2, q = lib.outcome('condition', inp['q'])
    if k1 != 'ast' or k2 != 'ast':
        return 'rejected-by-parser'
    mp, mq = _pred_model(p), _pred_model(q)
    st, np_ = core.guarded(p.negate)
    if st == 'exc':
        raise Violation('combinators', f'negate-raises:{core.exc_sig(np_)}', inp, f'negate() of {p} raised {type(np_).__name__}: {np_}')
    if not getattr(np_, 'is_predicate', False):
        raise Violation('combinators', 'negate-kind', inp, f'negate() returned {type(np_).__name__}')
    st, j = core.guarded(p.join, q)
    if st == 'exc':
        raise Violation('combinators', f'join-raises:{core.exc_sig(j)}', inp, f'({p}).join({q}) raised {type(j).__name__}: {str(j)[:200]}')
    if not getattr(j, 'is_predicate', False):
        raise Violation('combinators', 'join-kind', inp, f'join() returned {type(j).__name__}')
    # identity / annihilator by kind
    cp, cq, cj = astx.cname(p), astx.cname(q), astx.cname(j)
    if cp == 'HplVacuousTruth' and j != q:
        raise Violation('combinators', 'join-identity', inp, f'True.join(q) = {j}, expected q = {q}')
    if cq == 'HplVacuousTruth' and j != p:
        raise Violation('combinators', 'join-identity', inp, f'p.join(True) = {j}, expected p = {p}')
    if 'HplContradiction' in (cp, cq) and cj != 'HplContradiction':
        raise Violation('combinators', 'join-annihilator', inp, f'({p}).join({q}) = {j}, expected the contradiction')
    if cp == 'HplVacuousTruth' and astx.cname(np_) != 'HplContradiction':
        raise Violation('combinators', 'negate-vacuous', inp, f'negate() of the vacuous truth is {np_}')
    if cp == 'HplContradiction' and astx.cname(np_) != 'HplVacuousTruth':
        raise Violation('combinators', 'negate-vacuous', inp, f'negate() of the contradiction is {np_}')
    mn, mj = _pred_model(np_), _pred_model(j)
    defined = 0
    for e in _grid([mp, mq], inp, limit):
        s0, v0 = ev.try_ev(mp, e)
        if s0 == 'ok':
            s1, v1 = ev.try_ev(mn, e)
            if s1 == 'ok' or s1 == 'undef':
                defined += 1
                if s1 == 'undef' or v1 != (not v0):
                    raise Violation('combinators', f'negate-value:{sem.shape(mp)}', inp, f'negate() of {p} is {np_}: value {v1} where p is {v0}; this={e.this} vars={e.vars}')
        sc, vc = ev.try_ev(('bin', 'and', mp, mq), e)
        if sc == 'ok':
            s2, v2 = ev.try_ev(mj, e)
            if s2 in ('ok', 'undef'):
                defined += 1
                if s2 == 'undef' or v2 != vc:
                    raise Violation('combinators', f'join-value:{sem.shape(mj)}', inp, f'({p}).join({q}) = {j}: value {v2}, expected {vc}; this={e.this} vars={e.vars}')
    if not defined:
        return 'never-defined'
    return 'both-nonvacuous' if 'Vacuous' not in cp + cq and 'Contradiction' not in cp + cq else 'vacuous-operand'


###############################################################################
# (b), (c) replacements
###############################################################################


def _type_clash_possible(a, substituted_model_of):
    """May the substitution make two references of disjoint types coincide? (then TypeError is allowed)"""
    groups = {}
    for n in astx.preorder(a):
        c = astx.cname(n)
        if c in ('HplFieldAccess', 'HplArrayAccess', 'HplVarReference'):
            key = repr(substituted_model_of(astx.to_model(n)))
            groups.setdefault(key, []).append(n.data_type)
    for key, types in groups.items():
        t = types[0]
        for u in types[1:]:
            t = t & u
        if not t:
            return True
    return False


def sub_this_to_var(inp, limit=128):
    """inp: {'kind', 'text', 'this', 'aliases'}: a term over the current message (and aliases); V9 is fresh."""
    a = sem.parse_case(inp)
    if a is None:
        return 'rejected-by-parser'
    rw = _rw()
    model = astx.to_model(a)
    if astx.mentions_var(a, V):
        return 'alias-not-fresh'
    st, r = core.guarded(rw.replace_this_with_var, a, V)
    if st == 'exc':
        raise Violation('this_to_var', f'raises:{core.exc_sig(r)}', inp, f'replace_this_with_var({inp["text"]!r}, {V!r}) raised {type(r).__name__}: {str(r)[:300]}')
    if bool(getattr(a, 'is_predicate', False)) != bool(getattr(r, 'is_predicate', False)):
        raise Violation('this_to_var', 'kind', inp, f'replace_this_with_var returned {type(r).__name__}')
    if astx.mentions_this(r):
        raise Violation('this_to_var', f'this-left:{sem.shape(model)}', inp, f'result still references the current message: {r}\ninput: {a}')
    rmodel = astx.to_model(r)
    expected = mast.map_expr(model, lambda n: ('var', V) if n == ('this',) else n) if model[0] != 'lit' or True else model
    if rmodel != expected:
        raise Violation('this_to_var', f'structure:{sem.shape(model)}', inp, f'result is not the input with the current message replaced by @{V}:\ninput:  {a}\nresult: {r}')
    st, back = core.guarded(rw.replace_var_with_this, r, V)
    if st == 'exc':
        raise Violation('this_to_var', f'undo-raises:{core.exc_sig(back)}', inp, f'replace_var_with_this(replace_this_with_var(e)) raised {type(back).__name__}: {str(back)[:200]}')
    if back != a:
        raise Violation('this_to_var', f'undo:{sem.shape(model)}', inp, f'the two replacements do not undo each other:\ninput: {a}\nback:  {back}')
    defined = 0
    for e in _grid([model], inp, limit):
        s0, v0 = ev.try_ev(model, e)
        if s0 != 'ok':
            continue
        e2 = ev.Env(None, dict(e.vars, **{V: e.this}))
        s1, v1 = ev.try_ev(rmodel, e2)
        if s1 in ('ambig', 'illcond'):
            continue
        defined += 1
        if s1 == 'undef' or not ev.same_value(v0, v1):
            raise Violation('this_to_var', f'value:{sem.shape(model)}', inp, f'value changes: {v0!r} -> {v1!r}\ninput:  {a}\nresult: {r}\nthis={e.this} vars={e.vars}')
    # the same with a name that already occurs as an alias of another message: the current message and that message
    # become one; replacing the variable back then yields the term with BOTH read from the current message
    for alias in sorted(astx.message_aliases(a) - {n.variable for n in astx.preorder(a) if astx.cname(n) == 'HplQuantifier'})[:1]:
        st, r2 = core.guarded(rw.replace_this_with_var, a, alias)
        if st == 'exc':
            if isinstance(r2, TypeError) and getattr(a, 'is_predicate', False):
                continue  # two references of incompatible types may coincide (C14)
            raise Violation('this_to_var', f'merge-raises:{core.exc_sig(r2)}', inp, f'replace_this_with_var({inp["text"]!r}, {alias!r}) raised {type(r2).__name__}: {str(r2)[:200]}')
        want2 = mast.map_expr(model, lambda n: ('var', alias) if n == ('this',) else n)
        if astx.to_model(r2) != want2:
            raise Violation('this_to_var', f'merge-structure:{sem.shape(model)}', inp, f'replace_this_with_var(e, {alias!r}) is not e with the current message replaced by @{alias}:\ninput:  {a}\nresult: {r2}')
        st, b2 = core.guarded(rw.replace_var_with_this, r2, alias)
        if st == 'exc':
            if isinstance(b2, TypeError) and getattr(a, 'is_predicate', False):
                continue
            raise Violation('this_to_var', f'merge-undo-raises:{core.exc_sig(b2)}', inp, f'replace_var_with_this of {r2} raised {type(b2).__name__}: {str(b2)[:200]}')
        want3 = mast.map_expr(model, lambda n: ('this',) if n == ('var', alias) else n)
        if astx.to_model(b2) != want3:
            raise Violation('this_to_var', f'merge-undo:{sem.shape(model)}', inp, f'after replace_this_with_var(e, {alias!r}) the call replace_var_with_this(., {alias!r}) must read everything from the current message:\ninput:  {a}\nmerged: {r2}\nresult: {b2}')
    nt = _deep_or_repeated(model, lambda n: n == ('this',))
    return ('deep' if nt else 'shallow') if defined else 'never-defined'


def sub_var_to_this(inp, limit=128):
    """inp: {'kind','text','this': None or schema,'aliases': {A: schema,...},'alias': A}"""
    a = sem.parse_case(inp)
    if a is None:
        return 'rejected-by-parser'
    rw = _rw()
    alias = inp['alias']
    model = astx.to_model(a)
    if astx.binds(a, alias):
        return 'captured-excluded'
    if astx.mentions_var(a, alias) and alias not in astx.message_aliases(a):
        return 'not-used-as-a-message'  # a bare primitive variable is not an alias of a message
    subst = lambda m: mast.map_expr(m, lambda n: ('this',) if n == ('var', alias) else n)  # noqa: E731
    st, r = core.guarded(rw.replace_var_with_this, a, alias)
    if st == 'exc':
        if isinstance(r, TypeError) and getattr(a, 'is_predicate', False) and _type_clash_possible(a, subst):
            return 'type-clash-allowed'
        raise Violation('var_to_this', f'raises:{core.exc_sig(r)}', inp, f'replace_var_with_this({inp["text"]!r}, {alias!r}) raised {type(r).__name__}: {str(r)[:300]}')
    if bool(getattr(a, 'is_predicate', False)) != bool(getattr(r, 'is_predicate', False)):
        raise Violation('var_to_this', 'kind', inp, f'replace_var_with_this returned {type(r).__name__}')
    if astx.mentions_var(r, alias):
        raise Violation('var_to_this', f'alias-left:{sem.shape(model)}', inp, f'result still references @{alias}: {r}\ninput: {a}')
    rmodel = astx.to_model(r)
    if rmodel != subst(model):
        raise Violation('var_to_this', f'structure:{sem.shape(model)}', inp, f'result is not the input with @{alias} replaced by the current message:\ninput:  {a}\nresult: {r}')
    defined = 0
    mentions_this = astx.mentions_this(a)
    for e in _grid([model], inp, limit):
        if mentions_this:
            # the current message and the alias denote the same message afterwards: evaluate both that way
            if inp.get('this') is None:
                continue
            e = ev.Env(e.this, dict(e.vars, **{alias: e.this}))
        s0, v0 = ev.try_ev(model, e)
        if s0 != 'ok':
            continue
        e2 = ev.Env(e.vars.get(alias), e.vars)
        s1, v1 = ev.try_ev(rmodel, e2)
        if s1 in ('ambig', 'illcond'):
            continue
        defined += 1
        if s1 == 'undef' or not ev.same_value(v0, v1):
            raise Violation('var_to_this', f'value:{sem.shape(model)}', inp, f'value changes: {v0!r} -> {v1!r}\ninput:  {a}\nresult: {r}\nthis={e.this} vars={e.vars}')
    nt = _deep_or_repeated(model, lambda n: n == ('var', alias))
    return ('deep' if nt else 'shallow') if defined else 'never-defined'


###############################################################################
# (d) events with their own alias
###############################################################################


def sub_event_alias(inp):
    """inp: {'topic','alias','f': model condition mentioning ('var', alias) and/or the current message}"""
    from hpl.ast import HplSimpleEvent

    topic, alias, f = inp['topic'], inp['alias'], inp['f']
    t1 = mast.render(('prop', (), ('scope', 'globally', None, None), ('pat', 'absence', None, ('ev', topic, alias, f), None)))
    plain = mast.replace_var_base(f, alias)
    t2 = mast.render(('prop', (), ('scope', 'globally', None, None), ('pat', 'absence', None, ('ev', topic, None, plain), None)))
    k1, p1 = lib.outcome('property', t1)
    k2, p2 = lib.outcome('property', t2)
    if k2 != 'ast':
        return 'rejected-by-parser'
    if k1 != 'ast':
        raise Violation('event_alias', f'rejected:{k1}', inp, f'{t1!r} is rejected ({type(p1).__name__}: {str(p1)[:200]}) although the alias-free spelling {t2!r} is accepted')
    e1, e2 = p1.pattern.behaviour, p2.pattern.behaviour
    if e1.predicate != e2.predicate:
        raise Violation('event_alias', 'stored-predicate', inp, f'`{topic} as {alias} {{f}}` stores {e1.predicate}, the alias-free spelling stores {e2.predicate}')
    if alias in astx.free_refs(e1.predicate):  # an occurrence bound by a quantifier of the same name is not the alias
        raise Violation('event_alias', 'alias-left', inp, f'stored predicate still mentions @{alias}: {e1.predicate}')
    refs = e1.external_references()
    if alias in refs:
        raise Violation('event_alias', 'external-reference', inp, f'external_references() of {e1} lists its own alias: {refs}')
    if refs != e2.external_references():
        raise Violation('event_alias', 'external-reference', inp, f'external_references() differ: {refs} vs {e2.external_references()}')
    # API route
    k3, pr = lib.outcome('predicate', mast.render(('pred', f)))
    if k3 == 'ast':
        st, e3 = core.guarded(HplSimpleEvent.publish, topic, pr, alias)
        if st == 'exc':
            raise Violation('event_alias', f'publish-raises:{core.exc_sig(e3)}', inp, f'HplSimpleEvent.publish({topic!r}, {pr}, {alias!r}) raised {type(e3).__name__}: {str(e3)[:200]}')
        if e3.predicate != e2.predicate or e3 != e1:
            raise Violation('event_alias', 'publish-differs', inp, f'publish() gives {e3}, the parser gives {e1}')
    nt = _deep_or_repeated(ev.valued(f), lambda n: n == ('var', alias))
    return 'deep' if nt else 'shallow'


SUBS = {
    'combinators': sub_combinators,
    'this_to_var': sub_this_to_var,
    'var_to_this': sub_var_to_this,
    'event_alias': sub_event_alias,
}

###############################################################################
# Generators
###############################################################################


def gen_combinators(ch):
    schema = gen.schemas(ch, depth=1)
    aliases = {}
    if ch.bool():
        aliases['A'] = gen.schemas(ch, depth=1, small=True)
    env = gen.Env(schema, aliases, reserved=set(aliases))

    models = []

    def one():
        k = ch.int(0, 9)
        models.append(None)
        if k == 0:
            return 'True'
        if k == 1:
            return 'False'
        m = gen.predicate_term(ch, env, ch.int(1, 4), need_this=False)
        if ch.int(0, 2) == 0:
            for _ in range(ch.int(1, 4)):  # chains of leading negations: negate() must respect their parity
                m = ('un', 'not', m)
        models[-1] = m
        return mast.render(m)

    p = one()
    k = ch.int(0, 6)
    mp = models[0]
    if k <= 1 and mp is not None:
        # a close relative of p (one operator / literal / quantifier kind changed), p itself, or its negation:
        # rules that key on structural similarity of the two operands only fire on such pairs
        _, n = mutate_model(mp, -1)
        q = mast.render(mutate_model(mp, ch.int(0, n - 1))[0]) if n else p
    elif k == 2 and mp is not None:
        q = p
    elif k == 3 and mp is not None:
        q = mast.render(('un', 'not', mp))
    else:
        q = one()
    return {'p': p, 'q': q, 'this': schema, 'aliases': aliases}


REL_SWAP = {'<': '>=', '<=': '>', '>': '<', '>=': '=', '=': '!=', '!=': '<'}
CONN_SWAP = {'and': 'or', 'or': 'implies', 'implies': 'and', 'iff': 'and'}


def mutate_model(m, which):
    """One small change at the which-th eligible node of a condition model (relational or connective operator swapped,
    quantifier kind flipped, integer literal changed)."""
    state = {'i': 0}

    def f(n):
        elig = (n[0] == 'bin' and (n[1] in REL_SWAP or n[1] in CONN_SWAP)) or n[0] == 'q' or (n[0] == 'lit' and n[1] == 'int')
        if not elig:
            return n
        state['i'] += 1
        if state['i'] - 1 != which:
            return n
        if n[0] == 'bin':
            return ('bin', REL_SWAP.get(n[1]) or CONN_SWAP[n[1]], n[2], n[3])
        if n[0] == 'q':
            return ('q', 'exists' if n[1] == 'forall' else 'forall', n[2], n[3], n[4])
        return ('lit', 'int', str(int(n[2]) + 1))

    out = mast.map_expr(m, f)
    return out, state['i']


def join_table():
    """Pairs of quantified conditions over the same variable and domain (and the same / the other quantifier kind):
    what a rule that merges 'similar' operands of join() would look at."""
    from hplverif import small
    from hplverif.mast import binop

    for qk1 in ('forall', 'exists'):
        for qk2 in ('forall', 'exists'):
            for dom in small.DOMAINS:
                for b1 in small.VAR_BODIES:
                    for b2 in small.VAR_BODIES:
                        yield {'p': mast.render(('q', qk1, 'i', dom, b1)), 'q': mast.render(('q', qk2, 'i', dom, b2)), 'this': small.SMALL_THIS, 'aliases': small.SMALL_ALIASES}
    atoms = small.bool_terms(0)
    for a in atoms:
        for b in atoms:
            for op1 in ('and', 'or'):
                yield {'p': mast.render(binop(op1, a, b)), 'q': mast.render(binop(op1, b, a)), 'this': small.SMALL_THIS, 'aliases': small.SMALL_ALIASES}
                yield {'p': mast.render(a), 'q': mast.render(('un', 'not', binop(op1, a, b))), 'this': small.SMALL_THIS, 'aliases': small.SMALL_ALIASES}


def run_join_table(ctx, limit):
    with ctx.timed('join-table'):
        for inp in join_table():
            try:
                r = sub_combinators(inp, limit)
            except Violation as v:
                ctx.report(v)
                r = 'violation'
            ctx.case(('join-table', inp['p'], inp['q']), r == 'both-nonvacuous', f'join-table:{r}')


def gen_this_to_var(ch):
    kind = ch.pick(['condition', 'predicate', 'expression', 'expression'])
    schema = gen.schemas(ch, depth=2)
    aliases = {'B': gen.schemas(ch, depth=1, small=True)} if ch.int(0, 2) == 0 else {}
    env = gen.Env(schema, aliases, reserved=set(aliases) | {V})
    if kind == 'expression':
        m = gen.typed_term(ch, env, ch.pick(['B', 'N', 'N', 'S']), ch.int(1, 5))
    else:
        m = gen.predicate_term(ch, env, ch.int(1, 5), need_this=True)
    return {'kind': kind, 'text': mast.render(('pred', m) if kind == 'predicate' else m), 'this': schema, 'aliases': aliases}


def gen_var_to_this(ch):
    kind = ch.pick(['condition', 'predicate', 'expression', 'expression'])
    alias = ch.pick(['A', 'M1', 'first'])
    sa = gen.schemas(ch, depth=2)
    mixed = ch.int(0, 3) == 0
    # mixed: the term also mentions the current message, which has the same schema as the alias
    env = gen.Env(sa if mixed else None, {alias: sa}, reserved={alias})
    if kind == 'expression':
        m = gen.typed_term(ch, env, ch.pick(['B', 'N', 'N', 'S']), ch.int(1, 5))
    else:
        m = gen.predicate_term(ch, env, ch.int(1, 5), need_this=False)
    return {'kind': kind, 'text': mast.render(('pred', m) if kind == 'predicate' else m), 'this': sa if mixed else None, 'aliases': {alias: sa}, 'alias': alias}


def gen_event_alias(ch):
    alias = ch.pick(gen.ALIASES)
    topic = ch.pick(gen.TOPICS)
    schema = gen.schemas(ch, depth=2)
    # the alias denotes the message itself: same schema
    env = gen.Env(schema, {alias: schema}, reserved={alias})
    f = gen.predicate_term(ch, env, ch.int(1, 4), need_this=False)
    return {'topic': topic, 'alias': alias, 'f': f}


DEG_THIS = {'fields': {'x': ('num', 'int32'), 'b': ('bool',), 'xs': ('arr', ('num', 'int32'), -1), 'm': ('msg', {'fields': {'x': ('num', 'int32')}, 'consts': {}})}, 'consts': {}}


def degenerate_cases():
    """Roots that are themselves a reference, a literal or a one-node term: the replacement must act on the root too."""
    texts = ['@A', '@B', '@A.x', '@B.x', '@A.m.x', 'x', 'b', 'm.x', 'xs[0]', '@A.xs[@B.x]', '1', 'True', '"a"', '-x', 'not b', '{x, 1}', '[x to 2]',
             'len(xs)', 'abs(@A.x)', '@A.x + @B.x', 'x in {@A.x}', 'forall i in xs: @i > @A.x', 'forall i in @A.xs: @i > x']
    for t in texts:
        for kind in ('expression', 'condition'):
            yield {'kind': kind, 'text': t, 'this': DEG_THIS, 'aliases': {'A': DEG_THIS, 'B': DEG_THIS}}


SLOT_THIS = {
    'fields': {
        'i': ('num', 'int32'), 'x': ('num', 'int32'), 'p': ('bool',),
        'xs': ('arr', ('num', 'int32'), -1), 'ys': ('arr', ('num', 'int32'), -1),
        'ps': ('arr', ('msg', {'fields': {'x': ('num', 'int32'), 'ys': ('arr', ('num', 'int32'), -1)}, 'consts': {}}), -1),
        'm': ('msg', {'fields': {'x': ('num', 'int32'), 'xs': ('arr', ('num', 'int32'), -1)}, 'consts': {}}),
    },
    'consts': {},
}
SLOT_ALIASES = {
    'A': {'fields': {'i': ('num', 'int32'), 'x': ('num', 'int32'), 'xs': ('arr', ('num', 'int32'), -1)}, 'consts': {}},
    'Z': {'fields': dict(SLOT_THIS['fields']), 'consts': {}},
}


def slot_table_cases():
    """The replaced reference mentioned exactly once, in every kind of slot - in particular as an index in the MIDDLE of an
    accessor chain (`ps[R].x`, `@Z.ps[R].ys[0]`), inside nested indices, range bounds, set elements, call arguments,
    quantifier domains and bodies - under an own-message root and under another alias. R is a field of the current
    message (for this -> variable) or of @A (for variable -> this)."""
    from hplverif.mast import binop, own

    zero, one = ('lit', 'int', '0'), ('lit', 'int', '1')
    gt = lambda a, b: binop('>', a, b)  # noqa: E731

    def contexts(R, root):
        ps = ('field', root, 'ps')
        xs = ('field', root, 'xs')
        ys = ('field', root, 'ys')
        yield 'chain-middle-index', gt(('field', ('index', ps, R), 'x'), zero)
        yield 'chain-middle-index-deep', gt(('index', ('field', ('index', ps, R), 'ys'), zero), zero)
        yield 'chain-last-index', gt(('index', xs, R), zero)
        yield 'nested-index', gt(('index', xs, ('index', ys, R)), zero)
        yield 'index-arithmetic', gt(('index', xs, binop('+', R, one)), zero)
        yield 'index-in-call', gt(('call', 'abs', ('index', xs, R)), zero)
        yield 'range-low', binop('in', one, ('range', R, ('lit', 'int', '5'), False, False))
        yield 'range-high', binop('in', one, ('range', zero, R, True, False))
        yield 'set-element', binop('in', one, ('set', (zero, R)))
        yield 'call-of-set', gt(('call', 'max', ('set', (R, one))), zero)
        yield 'call-of-range', gt(('call', 'len', ('range', zero, R, False, False)), zero)
        yield 'quantifier-domain-chain', ('q', 'forall', 'k', ('field', ('index', ps, R), 'ys'), gt(('var', 'k'), zero))
        yield 'quantifier-domain-range', ('q', 'exists', 'k', ('range', zero, R, False, True), gt(('index', xs, ('var', 'k')), zero))
        yield 'quantifier-body-index', ('q', 'forall', 'k', xs, gt(('index', ys, R), ('var', 'k')))
        yield 'unary', gt(('un', '-', R), zero)
        yield 'under-not', ('un', 'not', gt(('index', xs, R), zero))

    for rname, R, alias in (('this-field', own('i'), None), ('alias-field', ('field', ('var', 'A'), 'i'), 'A')):
        for rootname, root in (('own-root', ('this',)), ('alias-root', ('var', 'Z'))):
            if alias is None and rootname == 'own-root':
                # the root itself is also the current message: R is then not the only mention, still a valid case
                pass
            for slot, m in contexts(R, root):
                yield {'kind': 'condition', 'text': mast.render(m), 'this': SLOT_THIS, 'aliases': SLOT_ALIASES, 'alias': alias,
                       'slot': f'{slot}:{rname}:{rootname}'}


def run_slot_table(ctx):
    with ctx.timed('slot-table'):
        for inp in slot_table_cases():
            for sub, name in ((sub_this_to_var, 'this_to_var'), (sub_var_to_this, 'var_to_this')):
                case = dict(inp, alias=inp['alias'] or 'A')
                try:
                    r = sub(case, 48)
                except Violation as v:
                    ctx.report(v)
                    r = 'violation'
                ctx.case(('slot', name, inp['text']), True, f'slot-table:{name}:{r}')
    ctx.exhaustive['substitution-slot-table'] = True


def run_degenerate(ctx):
    for inp in degenerate_cases():
        for alias in ('A', 'B', 'Zq'):
            case = dict(inp, alias=alias)
            try:
                r1 = sub_var_to_this(case, 64)
            except Violation as v:
                ctx.report(v)
                r1 = 'violation'
            ctx.case(('deg-v2t', inp['kind'], inp['text'], alias), r1 in ('deep', 'shallow'), 'degenerate:var_to_this:' + str(r1))
        try:
            r2 = sub_this_to_var(inp, 64)
        except Violation as v:
            ctx.report(v)
            r2 = 'violation'
        ctx.case(('deg-t2v', inp['kind'], inp['text']), r2 in ('deep', 'shallow'), 'degenerate:this_to_var:' + str(r2))
    ctx.exhaustive['degenerate-roots'] = True


def shard(ctx, shard_no, nshards, n):
    limit = 64 if ctx.tier == 'quick' else 192

    def mk(sub, name, key, nontrivial):
        def body(inp):
            r = sub(inp, limit) if sub is not sub_event_alias else sub(inp)
            ctx.case((name, key(inp)), r in nontrivial, f'{name}:{r}', sample=key(inp) if r in nontrivial else None)

        return body

    with ctx.timed('combinators'):
        core.run_hypothesis(ctx, 'combinators', from_tape(gen_combinators), mk(sub_combinators, 'combinators', lambda i: (i['p'], i['q']), {'both-nonvacuous'}), n)
    with ctx.timed('this_to_var'):
        core.run_hypothesis(ctx, 'this_to_var', from_tape(gen_this_to_var), mk(sub_this_to_var, 'this_to_var', lambda i: i['text'], {'deep'}), n)
    with ctx.timed('var_to_this'):
        core.run_hypothesis(ctx, 'var_to_this', from_tape(gen_var_to_this), mk(sub_var_to_this, 'var_to_this', lambda i: i['text'], {'deep'}), n)
    with ctx.timed('event_alias'):
        core.run_hypothesis(ctx, 'event_alias', from_tape(gen_event_alias), mk(sub_event_alias, 'event_alias', lambda i: mast.render(('pred', i['f'])) + ' as ' + i['alias'], {'deep'}), n)


def run(ctx):
    run_degenerate(ctx)
    run_slot_table(ctx)
    run_join_table(ctx, 32)
    if ctx.tier == 'quick':
        core.run_sharded(ctx, __name__, 'shard', 1, (1000,))
    else:
        core.run_sharded(ctx, __name__, 'shard', getattr(ctx, 'shards_override', None) or 16, (8000,))
        with ctx.timed('atheris'):
            from hplverif import fuzz

            fuzz.tape_campaigns(ctx, 'C13', 8, 60000)



def extra_evidence(ctx):
    return {'exhaustive': False, 'exhaustive_note': 'only the small table of degenerate roots is enumerated completely'}
