# C11 canonical_form is an exact, order-stable decomposition.

from hplverif import astx, core, findings, gen, lib, mast
from hplverif.checks import c14
from hplverif.core import Violation
from hplverif.tape import Chooser, from_tape

RULE = (
    'all 1400 shapes (scope kind x pattern kind x disjunction width 1..4 in every present event position) are enumerated; '
    'each is instantiated from a Hypothesis-drawn tape with schema-consistent predicates, aliases (visible later only when '
    'bound by an unsplit event), time bounds and metadata, parsed, and canonical_form is compared with the expectation '
    'computed from the model tree: length w(activator) x w(split event); the property itself (identity) when nothing splits; '
    'member k (activator-major, source order) differs from the input only in those two positions, carries an equal but distinct '
    'metadata dict, is a valid property, and is its own canonical form. A labelled extra family probes aliases bound by only '
    'some alternatives (known finding F13). Non-trivial: some split position has width >= 2; distinct by text.'
)
ASSUMPTIONS = ['the model tree of a generated text is the structure the parser builds (property C01)']


def _cf():
    from hpl.rewrite import canonical_form

    return canonical_form


def split_role(pk):
    if pk in ('absence', 'requirement', 'prevention'):
        return 'behaviour'
    if pk == 'response':
        return 'trigger'
    return None


def sub_canonical(inp):
    """inp: {'m': property model, 'text'}"""
    m = inp['m']
    text = inp['text']
    k, p = lib.outcome('property', text)
    if k != 'ast':
        return 'rejected-by-parser'
    st, r = core.guarded(_cf(), p)
    if st == 'exc':
        raise Violation('canonical', f'canonical_form:{core.exc_sig(r)}', inp, f'canonical_form({text!r}) raised {type(r).__name__}: {str(r)[:300]}')
    _, _meta, sc, pt = m
    acts = mast.simple_events(sc[2]) if sc[2] is not None else [None]
    sr = split_role(pt[1])
    split_ev = {'behaviour': pt[3], 'trigger': pt[2], None: None}[sr]
    alts = mast.simple_events(split_ev) if split_ev is not None else [None]
    wa, ws = len(acts), len(alts)
    if not isinstance(r, list) or not all(astx.cname(x) == 'HplProperty' for x in r):
        raise Violation('canonical', 'kind', inp, f'canonical_form returned {r!r}'[:300])
    if len(r) != wa * ws:
        raise Violation('canonical', f'length:{pt[1]}:{sc[1]}', inp, f'expected {wa} x {ws} = {wa * ws} members, got {len(r)} for {text!r}')
    if wa == 1 and ws == 1:
        if r[0] is not p:
            raise Violation('canonical', 'identity', inp, f'nothing to split in {text!r}, but the result is not the property itself')
        return 'no-split'
    lib_acts = astx.flat_events(p.scope.activator) if p.scope.activator is not None else [None]
    lib_alts = astx.flat_events(getattr(p.pattern, sr)) if sr else [None]
    kidx = 0
    for i in range(wa):
        for j in range(ws):
            q = r[kidx]
            where = f'member {kidx} (activator alternative {i}, split alternative {j}) of {text!r}'
            kidx += 1
            if q.scope.scope_type is not p.scope.scope_type:
                raise Violation('canonical', 'member-scope-kind', inp, f'{where}: scope kind {q.scope.scope_type} != {p.scope.scope_type}')
            if q.scope.terminator != p.scope.terminator:
                raise Violation('canonical', 'member-terminator', inp, f'{where}: terminator {q.scope.terminator} != {p.scope.terminator}')
            if q.pattern.pattern_type is not p.pattern.pattern_type:
                raise Violation('canonical', 'member-pattern-kind', inp, f'{where}: pattern kind differs')
            if q.pattern.min_time != p.pattern.min_time or q.pattern.max_time != p.pattern.max_time:
                raise Violation('canonical', 'member-time', inp, f'{where}: time bounds ({q.pattern.min_time}, {q.pattern.max_time}) != ({p.pattern.min_time}, {p.pattern.max_time})')
            if lib_acts[i] is None:
                if q.scope.activator is not None:
                    raise Violation('canonical', 'member-activator', inp, f'{where}: unexpected activator')
            elif q.scope.activator != lib_acts[i] or astx.cname(q.scope.activator) != 'HplSimpleEvent':
                raise Violation('canonical', 'member-activator', inp, f'{where}: activator is {q.scope.activator}, expected {lib_acts[i]}')
            for role in ('trigger', 'behaviour'):
                got = getattr(q.pattern, role)
                if role == sr:
                    if got != lib_alts[j] or astx.cname(got) != 'HplSimpleEvent':
                        raise Violation('canonical', f'member-split-event:{pt[1]}', inp, f'{where}: {role} is {got}, expected {lib_alts[j]}')
                elif got != getattr(p.pattern, role):
                    raise Violation('canonical', f'member-other-event:{pt[1]}', inp, f'{where}: {role} is {got}, expected the unsplit {getattr(p.pattern, role)}')
            if q.metadata != p.metadata:
                raise Violation('canonical', 'member-metadata', inp, f'{where}: metadata {q.metadata} != {p.metadata}')
            if q.metadata is p.metadata:
                raise Violation('canonical', 'member-metadata-shared', inp, f'{where}: metadata dict is shared with the input')
            from hpl.ast import HplProperty

            st2, rebuilt = core.guarded(HplProperty, q.scope, q.pattern)
            if st2 == 'exc':
                raise Violation('canonical', 'member-invalid', inp, f'{where} is not a valid property: {type(rebuilt).__name__}: {rebuilt}')
            st3, again = core.guarded(_cf(), q)
            if st3 == 'exc' or not (isinstance(again, list) and len(again) == 1 and again[0] is q):
                raise Violation('canonical', 'member-not-canonical', inp, f'canonical_form of {where} is not just that member: {again}')
    # members are pairwise distinct objects
    if len({id(x) for x in r}) != len(r):
        raise Violation('canonical', 'member-aliasing', inp, f'canonical_form({text!r}) returns the same object twice')
    return 'split'


SUBS = {'canonical': sub_canonical}


def build(ch, shape):
    m, _info = gen.properties(ch, depth=ch.int(1, 3), wild_time=ch.int(0, 3) == 0, shape=shape)
    return {'m': m, 'text': mast.render(m)}


def shard(ctx, shard_no, nshards, per_shape):
    shapes = gen.all_shapes()
    mine = [s for i, s in enumerate(shapes) if i % nshards == shard_no]
    from hypothesis import strategies as st

    def body(pair):
        idx, tape = pair
        inp = build(Chooser(tape), mine[idx])
        r = sub_canonical(inp)
        ctx.case(inp['text'], r == 'split', f'{mine[idx][1]}:{r}', sample=inp['text'] if r == 'split' else None)
        ctx.count('shape-hit:%d' % idx)

    # every shape is visited: one explicit pass (tapes from the seed), then Hypothesis picks shapes freely
    import random

    rng = random.Random(core.derive_seed(ctx.seed, 'c11', shard_no))
    with ctx.timed('all-shapes'):
        for idx in range(len(mine)):
            for _ in range(per_shape):
                tape = rng.randbytes(768)
                try:
                    body((idx, tape))
                except Violation as v:
                    if ctx.suppressed(v):
                        continue
                    # let Hypothesis search this shape again and shrink; fall back to the unshrunk case
                    before = len(ctx.violations)
                    one = st.tuples(st.just(idx), st.binary(min_size=768, max_size=768))
                    core.run_hypothesis(ctx, f'shape{idx}', one, body, 60, max_rounds=1)
                    if len(ctx.violations) == before:
                        ctx.report(v)
    with ctx.timed('hypothesis'):
        strat = st.tuples(st.integers(0, len(mine) - 1), st.binary(min_size=768, max_size=768))
        core.run_hypothesis(ctx, 'shapes', strat, body, len(mine) * max(1, per_shape // 2))

    def body_f13(inp):
        try:
            r = sub_canonical(inp)
        except Violation as v:
            if not findings.partial_alias_shape(inp['m']):
                raise
            if not ctx.suppressed(v):
                raise
            r = 'known-finding'
        ctx.case(inp['text'], True, 'partial-alias-family:' + r, sample=inp['text'])

    with ctx.timed('f13-family'):
        core.run_hypothesis(ctx, 'f13', from_tape(c14.gen_f13_case), body_f13, 100 if ctx.tier == 'quick' else 400)
    hits = sum(1 for k in ctx.counts if k.startswith('shape-hit:'))
    for k in [k for k in ctx.counts if k.startswith('shape-hit:')]:
        del ctx.counts[k]
    ctx.count('shapes-visited', hits)


def run(ctx):
    if ctx.tier == 'quick':
        core.run_sharded(ctx, __name__, 'shard', 1, (2,))
    else:
        core.run_sharded(ctx, __name__, 'shard', getattr(ctx, 'shards_override', None) or 16, (60,))
    ctx.exhaustive['shape-space-1400'] = ctx.counts.get('shapes-visited', 0) == 1400


def extra_evidence(ctx):
    return {'exhaustive': False, 'exhaustive_note': 'the 1400 shapes are all visited; their instantiations (predicates, aliases, bounds) are sampled'}
