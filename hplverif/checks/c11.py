# C11 canonical_form is an exact, order-stable decomposition.

from hplverif import astx, core, findings, gen, lib, mast, sem
from hplverif.checks import c14
from hplverif.core import Violation
from hplverif.tape import Chooser, from_tape

RULE = (
    'all 1400 shapes (scope kind x pattern kind x disjunction width 1..4 in every present event position) are enumerated; '
    'each is instantiated from a Hypothesis-drawn tape with schema-consistent predicates, aliases (visible later only when '
    'bound by an unsplit event), time bounds and metadata, parsed, and canonical_form is compared with the expectation '
    'computed from the model tree: length w(activator) x w(split event); the property itself (identity) when nothing splits; '
    'member k (activator-major, source order) differs from the input only in those two positions, carries an equal but distinct '
    'metadata dict, is a valid property, and is its own canonical form. A labelled extra family probes aliases bound by only '
    'some alternatives (known finding F13). A history family applies canonical_form several times in one process - again to the '
    'same object, to the same text parsed under other annotations (an equal property), to copies with another time bound / '
    'behaviour / scope made with but(), and to members of earlier results - and compares every result with the expectation '
    'computed from the object actually passed. Non-trivial: some split position has width >= 2; distinct by text.'
)
ASSUMPTIONS = ['the model tree of a generated text is the structure the parser builds (property C01)']


def _cf():
    from hpl.rewrite import canonical_form

    return canonical_form


def split_role(pk):
    if pk in ('absence', 'requirement', 'prevention'):
        return 'behaviour'
    if pk == 'response':
        return 'trigger'
    return None


def _verify(p, r, inp, text, wa=None, ws=None):
    """Compare canonical_form's result r for the library property p with the expectation; wa/ws: widths from the model
    (None: taken from p through the independent walker)."""
    pk = p.pattern.pattern_type.name.lower()
    sr = split_role(pk)
    lib_acts = astx.flat_events(p.scope.activator) if p.scope.activator is not None else [None]
    lib_alts = astx.flat_events(getattr(p.pattern, sr)) if sr else [None]
    if wa is None:
        wa, ws = len(lib_acts), len(lib_alts)
    elif (wa, ws) != (len(lib_acts), len(lib_alts)):
        raise core.HarnessError(f'model widths {wa}x{ws} differ from the parsed widths {len(lib_acts)}x{len(lib_alts)} for {text!r}')
    if not isinstance(r, list) or not all(astx.cname(x) == 'HplProperty' for x in r):
        raise Violation('canonical', 'kind', inp, f'canonical_form returned {r!r}'[:300])
    if len(r) != wa * ws:
        raise Violation('canonical', f'length:{pk}:{p.scope.scope_type.name.lower()}', inp, f'expected {wa} x {ws} = {wa * ws} members, got {len(r)} for {text!r}')
    if wa == 1 and ws == 1:
        if r[0] is not p:
            raise Violation('canonical', 'identity', inp, f'nothing to split in {text!r}, but the result is not the property itself')
        return 'no-split'
    kidx = 0
    for i in range(wa):
        for j in range(ws):
            q = r[kidx]
            where = f'member {kidx} (activator alternative {i}, split alternative {j}) of {text!r}'
            kidx += 1
            if q.scope.scope_type is not p.scope.scope_type:
                raise Violation('canonical', 'member-scope-kind', inp, f'{where}: scope kind {q.scope.scope_type} != {p.scope.scope_type}')
            if q.scope.terminator != p.scope.terminator:
                raise Violation('canonical', 'member-terminator', inp, f'{where}: terminator {q.scope.terminator} != {p.scope.terminator}')
            if q.pattern.pattern_type is not p.pattern.pattern_type:
                raise Violation('canonical', 'member-pattern-kind', inp, f'{where}: pattern kind differs')
            if q.pattern.min_time != p.pattern.min_time or q.pattern.max_time != p.pattern.max_time:
                raise Violation('canonical', 'member-time', inp, f'{where}: time bounds ({q.pattern.min_time}, {q.pattern.max_time}) != ({p.pattern.min_time}, {p.pattern.max_time})')
            if lib_acts[i] is None:
                if q.scope.activator is not None:
                    raise Violation('canonical', 'member-activator', inp, f'{where}: unexpected activator')
            elif q.scope.activator != lib_acts[i] or astx.cname(q.scope.activator) != 'HplSimpleEvent':
                raise Violation('canonical', 'member-activator', inp, f'{where}: activator is {q.scope.activator}, expected {lib_acts[i]}')
            for role in ('trigger', 'behaviour'):
                got = getattr(q.pattern, role)
                if role == sr:
                    if got != lib_alts[j] or astx.cname(got) != 'HplSimpleEvent':
                        raise Violation('canonical', f'member-split-event:{pk}', inp, f'{where}: {role} is {got}, expected {lib_alts[j]}')
                elif got != getattr(p.pattern, role):
                    raise Violation('canonical', f'member-other-event:{pk}', inp, f'{where}: {role} is {got}, expected the unsplit {getattr(p.pattern, role)}')
            if q.metadata != p.metadata:
                raise Violation('canonical', 'member-metadata', inp, f'{where}: metadata {q.metadata} != {p.metadata}')
            if q.metadata is p.metadata:
                raise Violation('canonical', 'member-metadata-shared', inp, f'{where}: metadata dict is shared with the input')
            from hpl.ast import HplProperty

            st2, rebuilt = core.guarded(HplProperty, q.scope, q.pattern)
            if st2 == 'exc':
                raise Violation('canonical', 'member-invalid', inp, f'{where} is not a valid property: {type(rebuilt).__name__}: {rebuilt}')
            st3, again = core.guarded(_cf(), q)
            if st3 == 'exc' or not (isinstance(again, list) and len(again) == 1 and again[0] is q):
                raise Violation('canonical', 'member-not-canonical', inp, f'canonical_form of {where} is not just that member: {again}')
    # members are pairwise distinct objects
    if len({id(x) for x in r}) != len(r):
        raise Violation('canonical', 'member-aliasing', inp, f'canonical_form({text!r}) returns the same object twice')
    return 'split'


def sub_canonical(inp):
    """inp: {'m': property model, 'text'}"""
    m = inp['m']
    text = inp['text']
    k, p = lib.outcome('property', text)
    if k != 'ast':
        return 'rejected-by-parser'
    st, r = core.guarded(_cf(), p)
    if st == 'exc':
        raise Violation('canonical', f'canonical_form:{core.exc_sig(r)}', inp, f'canonical_form({text!r}) raised {type(r).__name__}: {str(r)[:300]}')
    _, _meta, sc, pt = m
    acts = mast.simple_events(sc[2]) if sc[2] is not None else [None]
    sr = split_role(pt[1])
    split_ev = {'behaviour': pt[3], 'trigger': pt[2], None: None}[sr]
    alts = mast.simple_events(split_ev) if split_ev is not None else [None]
    return _verify(p, r, inp, text, len(acts), len(alts))


def _relabel(m, tag):
    """The same property with other annotations."""
    return ('prop', (('id', f'twin_{tag}'), ('title', f'"{tag}"')), m[2], m[3])


def sub_history(inp):
    """canonical_form is a function of its argument only. inp: {'m', 'text', 'steps': [step...]}; steps are applied in
    order to objects obtained earlier in the same process, and every result is compared with the expectation computed
    from the object that was actually passed:
      'same'   canonical_form(p) again: an equal list
      'twin'   the same text parsed again with other annotations (an equal property, eq/hash ignore metadata)
      'retime' p.but(pattern=p.pattern.but(max_time=T)), or but(max_time=T, min_time=t) with 0 < t <= T
      'reevent' p.but(pattern=p.pattern.but(behaviour=<the behaviour of a neutral property>)) when that passes the sanity check
      'global' p.but(scope=globally) when that passes the sanity check
      'share'  the activator's (or terminator's) event object also put in the trigger / behaviour position, when that passes the sanity check
      'renest' the same alternatives nested differently inside their disjunctions (left-leaning, balanced), built through the API
      'rename' the activator's alias renamed everywhere through but() / replace_var_reference() on the same event objects
      'member' canonical_form of a member of an earlier result
    """
    from hpl.ast import HplScope

    m, text = inp['m'], inp['text']
    k, p = lib.outcome('property', text)
    if k != 'ast':
        return 'rejected-by-parser'
    cf = _cf()

    def run_on(q, label):
        st, r = core.guarded(cf, q)
        if st == 'exc':
            raise Violation('history', f'{label}:{core.exc_sig(r)}', inp, f'canonical_form raised {type(r).__name__}: {str(r)[:200]} at step {label} of {text!r} (argument: {q})')
        try:
            _verify(q, r, inp, f'{q} [step {label}]')
        except Violation as v:
            raise Violation('history', f'{label}:{v.sig}', inp, v.message) from None
        return r

    first = run_on(p, 'first')
    results = [first]
    done = []
    for step in inp['steps']:
        kind = step[0]
        if kind == 'same':
            again = run_on(p, 'same')
            if again != first or [x.metadata for x in again] != [x.metadata for x in first]:
                raise Violation('history', 'same:differs', inp, f'canonical_form({text!r}) gives {again} after having given {first}')
        elif kind == 'twin':
            t2 = mast.render(_relabel(m, step[1]))
            k2, p2 = lib.outcome('property', t2)
            if k2 != 'ast':
                raise Violation('history', 'twin:rejected', inp, f'{t2!r} is rejected although {text!r} is accepted')
            results.append(run_on(p2, 'twin'))
        elif kind == 'retime':
            # with a third entry: also a lower time bound (the concrete syntax has none, the pattern object does)
            kw = {'max_time': float(step[1])}
            if len(step) > 2:
                kw['min_time'] = float(step[2])
            st, q = core.guarded(lambda: p.but(pattern=p.pattern.but(**kw)))
            if st == 'ok':
                results.append(run_on(q, 'retime'))
        elif kind == 'reevent':
            st, q = core.guarded(lambda: p.but(pattern=p.pattern.but(behaviour=lib.parser('property').parse('globally: no zz9 {zq = 1}').pattern.behaviour)))
            if st == 'ok':
                results.append(run_on(q, 'reevent'))
        elif kind == 'share':
            # the very same event OBJECT in two positions (only the API can do that): the activator also as the trigger
            # or behaviour, or the terminator as the behaviour - when the sanity check lets it pass
            def _shared():
                src = p.scope.activator if step[1] != 'terminator' else p.scope.terminator
                role = step[2]
                if src is None or (role == 'trigger' and p.pattern.trigger is None):
                    raise ValueError('no such position')
                # not the shape of the known finding F13 (an alias bound by only some alternatives of what becomes a split
                # position, and referred to by the other pattern event): that is judged by its own labelled family
                alts = astx.flat_events(src)
                partial = {str.__str__(e.alias) for e in alts if e.alias and sum(1 for x in alts if x.alias == e.alias) < len(alts)}
                other = p.pattern.behaviour if role == 'trigger' else p.pattern.trigger
                if partial and other is not None and partial & {str.__str__(n) for se in astx.flat_events(other) for n in astx.free_refs(se.predicate)}:
                    raise ValueError('F13 shape')
                return p.but(pattern=p.pattern.but(**{role: src}))

            st, q = core.guarded(_shared)
            if st == 'ok':
                results.append(run_on(q, 'share'))
        elif kind == 'global':
            st, q = core.guarded(lambda: p.but(scope=HplScope.globally()))
            if st == 'ok':
                results.append(run_on(q, 'global'))
        elif kind == 'renest':
            # the same alternatives in the same source order, nested differently (only the API builds such trees)
            def _renested():
                sc = p.scope if p.scope.activator is None else p.scope.but(activator=lib.renest_event(p.scope.activator, step[1]))
                kw = {'behaviour': lib.renest_event(p.pattern.behaviour, step[1] // 2 + 1)}
                if p.pattern.trigger is not None:
                    kw['trigger'] = lib.renest_event(p.pattern.trigger, step[1] // 3 + 2)
                return p.but(scope=sc, pattern=p.pattern.but(**kw))

            st, q = core.guarded(_renested)
            if st == 'ok':
                results.append(run_on(q, 'renest'))
        elif kind == 'rename':
            # a copy in which an alias bound by the (simple) activator is renamed everywhere, made from the SAME event
            # objects through but() / replace_var_reference(), after canonical_form has already seen them
            from hpl.ast import HplVarReference

            act = p.scope.activator
            if act is not None and astx.cname(act) == 'HplSimpleEvent' and act.alias:
                old_name = act.alias

                def _renamed():
                    ref = HplVarReference('@Q9')
                    kw = {'behaviour': p.pattern.behaviour.replace_var_reference(old_name, ref)}
                    if p.pattern.trigger is not None:
                        kw['trigger'] = p.pattern.trigger.replace_var_reference(old_name, ref)
                    skw = {'activator': act.but(alias='Q9')}
                    if p.scope.terminator is not None:
                        skw['terminator'] = p.scope.terminator.replace_var_reference(old_name, ref)
                    return p.but(scope=p.scope.but(**skw), pattern=p.pattern.but(**kw))

                st, q = core.guarded(_renamed)
                if st == 'ok':
                    results.append(run_on(q, 'rename'))
        elif kind == 'member':
            r = results[step[1] % len(results)]
            q = r[step[2] % len(r)]
            again = run_on(q, 'member')
            if not (len(again) == 1 and again[0] is q):
                raise Violation('history', 'member:not-itself', inp, f'canonical_form of the member {q} is {again}')
        done.append(kind)
    return 'split' if len(first) > 1 else 'no-split'


SUBS = {'canonical': sub_canonical, 'history': sub_history}


def build(ch, shape):
    m, _info = gen.properties(ch, depth=ch.int(1, 3), wild_time=ch.int(0, 3) == 0, shape=shape)
    return {'m': m, 'text': mast.render(m)}


def shared_alias_cases():
    """Every alternative of a disjunctive activator (or of the split event) binds the SAME alias, and later events - the
    terminator, the other pattern event - refer to it: the alias stays bound in every member, so the split must happen."""
    from hplverif.mast import binop, own

    def ref(a):
        return binop('>', own('x'), ('field', ('var', a), 'x'))

    for sk in ('after', 'after_until'):
        for w in (2, 3):
            act = ('disj', tuple(('ev', f'p{i}', 'M', None if i else binop('>', own('x'), ('lit', 'int', '0'))) for i in range(w)))
            for pk in PATTERN_KINDS:
                for term_ref in ((False, True) if sk == 'after_until' else (False,)):
                    term = ('ev', 'q', None, ref('M') if term_ref else None) if sk == 'after_until' else None
                    for beh_ref in (False, True):
                        beh = ('ev', 'b', None, ref('M') if beh_ref else None)
                        trig = None if pk in ('existence', 'absence') else ('ev', 'a', None, ref('M') if not beh_ref else None)
                        yield ('prop', (), ('scope', sk, act, term), ('pat', pk, trig, beh, None))
    # the split event of the pattern with a shared alias that the other event uses
    for pk, split_is_trigger in (('response', True), ('requirement', False), ('prevention', False)):
        for w in (2, 3):
            alts = ('disj', tuple(('ev', f'{"a" if split_is_trigger else "b"}{i}', 'S', None) for i in range(w)))
            if pk == 'response':
                yield ('prop', (), ('scope', 'globally', None, None), ('pat', pk, alts, ('ev', 'b', None, ref('S')), ('2', 's')))
            elif pk == 'requirement':
                yield ('prop', (), ('scope', 'globally', None, None), ('pat', pk, ('ev', 'a', None, ref('S')), alts, None))


PATTERN_KINDS = ('existence', 'absence', 'response', 'prevention', 'requirement')


def build_history(ch):
    shapes = gen.all_shapes()
    shape = shapes[ch.int(0, len(shapes) - 1)]
    # small predicates: equal properties (the same text under other annotations, simple properties that recur) matter here
    m, _info = gen.properties(ch, depth=ch.int(0, 1), wild_time=False, shape=shape)
    steps = []
    for _ in range(ch.int(2, 5)):
        k = ch.pick(['same', 'twin', 'twin', 'retime', 'retime', 'reevent', 'global', 'member', 'renest', 'renest', 'renest', 'rename', 'rename', 'share', 'share'])
        if k == 'share':
            steps.append((k, ch.pick(['activator', 'activator', 'terminator']), ch.pick(['trigger', 'behaviour'])))
            continue
        if k == 'twin':
            steps.append((k, ch.pick(['t1', 't2', 't3'])))
        elif k == 'retime':
            T = ch.pick([0.5, 5, 30, 1000])
            steps.append((k, T) if ch.bool() else (k, T, ch.pick([T / 4, T / 2, T, 0.25])))
        elif k == 'member':
            steps.append((k, ch.int(0, 7), ch.int(0, 15)))
        elif k == 'renest':
            steps.append((k, ch.int(1, 40)))
        else:
            steps.append((k,))
    return {'m': m, 'text': mast.render(m), 'steps': steps}


def shard(ctx, shard_no, nshards, per_shape):
    shapes = gen.all_shapes()
    mine = [s for i, s in enumerate(shapes) if i % nshards == shard_no]
    from hypothesis import strategies as st

    def body(pair):
        idx, tape = pair
        inp = build(Chooser(tape), mine[idx])
        r = sub_canonical(inp)
        ctx.case(inp['text'], r == 'split', f'{mine[idx][1]}:{r}', sample=inp['text'] if r == 'split' else None)
        ctx.count('shape-hit:%d' % idx)

    # every shape is visited: one explicit pass (tapes from the seed), then Hypothesis picks shapes freely
    import random

    rng = random.Random(core.derive_seed(ctx.seed, 'c11', shard_no))
    with ctx.timed('all-shapes'):
        for idx in range(len(mine)):
            for _ in range(per_shape):
                tape = rng.randbytes(768)
                try:
                    body((idx, tape))
                except Violation as v:
                    if ctx.suppressed(v):
                        continue
                    # let Hypothesis search this shape again and shrink; fall back to the unshrunk case
                    before = len(ctx.violations)
                    one = st.tuples(st.just(idx), st.binary(min_size=768, max_size=768))
                    core.run_hypothesis(ctx, f'shape{idx}', one, body, 60, max_rounds=1)
                    if len(ctx.violations) == before:
                        ctx.report(v)
    with ctx.timed('hypothesis'):
        strat = st.tuples(st.integers(0, len(mine) - 1), st.binary(min_size=768, max_size=768))
        core.run_hypothesis(ctx, 'shapes', strat, body, len(mine) * max(1, per_shape // 2))

    def body_f13(inp):
        try:
            r = sub_canonical(inp)
        except Violation as v:
            if not findings.partial_alias_shape(inp['m']):
                raise
            if not ctx.suppressed(v):
                raise
            r = 'known-finding'
        ctx.case(inp['text'], True, 'partial-alias-family:' + r, sample=inp['text'])

    def body_hist(inp):
        r = sub_history(inp)
        ctx.case((inp['text'], tuple(inp['steps'])), r == 'split', 'history:' + r)
        for x in inp['steps']:
            ctx.count('history-step:' + x[0])

    with ctx.timed('history'):
        core.run_hypothesis(ctx, 'history', from_tape(build_history), body_hist, 400 if ctx.tier == 'quick' else 2500)

    with ctx.timed('shared-alias-family'):
        for m in shared_alias_cases():
            inp = {'m': m, 'text': mast.render(m)}
            try:
                r = sub_canonical(inp)
            except Violation as v:
                ctx.report(v)
                r = 'violation'
            ctx.case(inp['text'], r == 'split', 'shared-alias:' + r)

    with ctx.timed('vacuity-table'):
        stride = 8 if ctx.tier == 'quick' else 1
        for i, m in enumerate(gen.vacuity_table()):
            if stride * nshards > 1 and sem._mix(i, ctx.seed) % (stride * nshards) != shard_no:
                continue
            inp = {'m': m, 'text': mast.render(m)}
            try:
                r = sub_canonical(inp)
            except Violation as v:
                ctx.report(v)
                r = 'violation'
            ctx.case(inp['text'], r == 'split', 'vacuity-table:' + r)

    with ctx.timed('f13-family'):
        core.run_hypothesis(ctx, 'f13', from_tape(c14.gen_f13_case), body_f13, 100 if ctx.tier == 'quick' else 400)
    hits = sum(1 for k in ctx.counts if k.startswith('shape-hit:'))
    for k in [k for k in ctx.counts if k.startswith('shape-hit:')]:
        del ctx.counts[k]
    ctx.count('shapes-visited', hits)


def run(ctx):
    if ctx.tier == 'quick':
        core.run_sharded(ctx, __name__, 'shard', 1, (2,))
    else:
        core.run_sharded(ctx, __name__, 'shard', getattr(ctx, 'shards_override', None) or 16, (60,))
    ctx.exhaustive['shape-space-1400'] = ctx.counts.get('shapes-visited', 0) == 1400


def extra_evidence(ctx):
    return {'exhaustive': False, 'exhaustive_note': 'the 1400 shapes are all visited; their instantiations (predicates, aliases, bounds) are sampled'}
