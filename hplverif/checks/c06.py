# C06 Printing a parsed AST and parsing it again gives the same AST.

from hplverif.tape import from_tape

from hplverif import astx, core, gen, lib, mast, relatives
from hplverif.core import Violation

RULE = (
    'every AST the parser returns for generated texts (type-directed properties with time bounds of any magnitude, '
    'specifications, predicates, conditions, expressions; all node kinds) is printed with str(), parsed again with '
    'the entry point of its level, and compared: equal AST, equal hash, identical second print. A run-wide map '
    'text -> AST checks that unequal ASTs never print alike, and every reference inside an AST is checked to print '
    'differently from every structurally different reference. Non-trivial: the AST has operator nesting, a quantifier, '
    'a call, a disjunction or a time bound; distinct by printed text.'
)
ASSUMPTIONS = ['generated texts are accepted by the parser (rejected ones are counted and skipped: C06 is about parser output)']

REPARSE = {'specification': 'specification', 'property': 'property', 'predicate': 'predicate', 'condition': 'predicate', 'expression': 'expression'}

_seen = {}


def _nodes(a):
    return astx.preorder(a)


def nontrivial(a):
    ops = 0
    for n in _nodes(a):
        c = astx.cname(n)
        if c in ('HplQuantifier', 'HplFunctionCall', 'HplEventDisjunction'):
            return True
        if c in ('HplUnaryOperator', 'HplBinaryOperator'):
            ops += 1
        if c == 'HplPattern' and n.max_time != float('inf'):
            return True
    return ops >= 2


def sub_roundtrip(inp):
    """inp: {'kind', 'text'}"""
    kind, text = inp['kind'], inp['text']
    k, a = lib.outcome(kind, text)
    if k != 'ast':
        return None
    t = str(a)
    rk = REPARSE[kind]
    k2, b = lib.outcome(rk, t)
    if k2 != 'ast':
        raise Violation(
            'roundtrip', f'print-not-parsable:{k2}:{_sig(a)}', inp,
            f'str() of a parsed AST does not parse ({type(b).__name__}: {str(b)[:200]})\ntext:    {text!r}\nprinted: {t!r}',
        )  # fmt: skip
    if b != a:
        raise Violation('roundtrip', f'reparse-differs:{_sig(a)}', inp, f'parse(str(a)) != a\ntext:    {text!r}\nprinted: {t!r}\nagain:   {str(b)!r}')
    if hash(b) != hash(a):
        raise Violation('roundtrip', f'hash-differs:{_sig(a)}', inp, f'hash(parse(str(a))) != hash(a) for {t!r}')
    t2 = str(b)
    if t2 != t:
        raise Violation('roundtrip', f'print-unstable:{_sig(a)}', inp, f'second print differs:\n{t!r}\n{t2!r}')
    _check_refs(a, inp)
    return a, t


def _sig(a):
    ks = sorted({astx.cname(n) for n in _nodes(a)} - {'HplLiteral', 'HplFieldAccess', 'HplThisMessage', 'HplVacuousTruth'})
    return ','.join(k[3:] for k in ks)[:100]


def _check_refs(a, inp):
    table = {}
    for n in _nodes(a):
        c = astx.cname(n)
        if c in ('HplFieldAccess', 'HplArrayAccess', 'HplVarReference'):
            key = str(n)
            model = astx.to_model(n)
            if key in table and table[key] != model:
                raise Violation('roundtrip', 'reference-print-collision', inp, f'two different references print as {key!r}: {table[key]} vs {model}')
            table[key] = model


def sub_injective(inp):
    """inp: {'kind', 'text1', 'text2'}: two texts whose ASTs differ must print differently."""
    kind = inp['kind']
    k1, a = lib.outcome(kind, inp['text1'])
    k2, b = lib.outcome(kind, inp['text2'])
    if k1 == 'ast' and k2 == 'ast' and a != b and str(a) == str(b):
        raise Violation('injective', 'same-print', inp, f'unequal ASTs print alike: {str(a)!r}')


SUBS = {'roundtrip': sub_roundtrip, 'injective': sub_injective}


def cases(ch):
    kind = ch.pick(['property', 'property', 'property', 'predicate', 'condition', 'expression', 'specification'])
    chaos = ch.pick([0, 0, 0, 6])
    if kind == 'property':
        m, _ = gen.properties(ch, depth=ch.int(1, 4), wild_time=True, chaos=chaos)
    elif kind == 'specification':
        m = ('spec', tuple(gen.properties(ch, depth=2, wild_time=True)[0] for _ in range(ch.int(1, 3))))
    elif kind == 'expression':
        m = gen.standalone_terms(ch, depth=ch.int(1, 5), chaos=chaos)[0]
    else:
        m = gen.standalone_predicates(ch, depth=ch.int(1, 5), chaos=chaos)[0]
    text = mast.render(('pred', m) if kind == 'predicate' else m, gen.layouts(ch))
    return {'kind': kind, 'text': text}


def shard(ctx, shard_no, nshards, n):
    seen = {}

    def body(inp, relative=False):
        if not relative and core.h64(inp['text']) % 4 == 0:
            # afterwards, in the same process: close relatives of this text (equal numbers in the other spelling, aliases
            # renamed, other annotations) - what a cache keyed by ==, hash or printed form would confuse with it
            body(inp, True)
            for t in relatives.texts(inp['text']):
                ctx.count('relatives')
                body({'kind': inp['kind'], 'text': t}, True)
            return
        r = sub_roundtrip(inp)
        if r is None:
            ctx.count('rejected-by-parser')
            return
        a, t = r
        key = (REPARSE[inp['kind']], t)
        if key in seen:
            prev_text, prev = seen[key]
            if prev != a:
                # depends on an earlier case: reported directly (the pair is the replay input), not through shrinking
                ctx.report(Violation('injective', 'same-print', {'kind': inp['kind'], 'text1': prev_text, 'text2': inp['text']}, f'unequal ASTs print alike: {t!r}'))
        else:
            seen[key] = (inp['text'], a)
        nt = nontrivial(a)
        ctx.case(t, nt, inp['kind'] + (':nontrivial' if nt else ':simple'), sample=t)
        if any(astx.cname(n) == 'HplPattern' and n.max_time < 1.0 for n in _nodes(a)):
            ctx.count('sub-second-bounds')

    with ctx.timed('roundtrip'):
        core.run_hypothesis(ctx, 'roundtrip', from_tape(cases), body, n)

    def body_f23(inp):
        # labelled family for the known finding F23: the event's own alias as a bare message value
        try:
            r = 'holds' if sub_roundtrip(inp) is not None else 'rejected-by-parser'
        except Violation as v:
            if not ctx.suppressed(v):
                raise
            r = 'known-finding'
        ctx.case(inp['text'], True, 'own-alias-as-message-value:' + r, sample=inp['text'])

    def f23_cases(ch):
        fn = ch.pick(['roll', 'pitch', 'yaw'])
        alias = ch.pick(['A', 'M', 'msg'])
        rel = ch.pick(['>', '<', '=', '>='])
        extra = ch.pick(['', ' and x > 1', ' or @%s.y < 2' % alias])
        scope = ch.pick(['globally', 'after p', 'until q'])
        pat = ch.pick(['no t as %s {%s}', 'some t as %s {%s}', 't as %s {%s} causes u'])
        pred = f'{fn}(@{alias}) {rel} 0{extra}'
        return {'kind': 'property', 'text': f'{scope}: ' + pat % (alias, pred)}

    if shard_no == 0:
        with ctx.timed('f23-family'):
            core.run_hypothesis(ctx, 'f23', from_tape(f23_cases, 32), body_f23, 40)
        with ctx.timed('f24-family'):
            run_f24_family(ctx)


F24_WORDS = ('E', 'False', 'INF', 'NAN', 'PI', 'True', 'exists', 'forall', 'not')
# other words with a meaning of their own elsewhere in the language: as field names behind a reference they print as written
F24_CONTROL_WORDS = ('in', 'and', 'or', 'to', 'as', 'abs', 'len', 's', 'ms', 'id', 'no', 'within', 'implies')
F24_FORMS = ('@{a}.{w} > 0', '@{a}.{w}', 'x > 0 and @{a}.{w} = 1', '@{a}.{w}.x > 0', '@{a}.{w}[0] > 0', 'not @{a}.{w}', 'x in [0 to @{a}.{w}]', 'x in {{1, @{a}.{w}}}')


def run_f24_family(ctx):
    """Labelled family for the known finding F24: a field named like a constant or a prefix keyword, read through the
    event's own alias. Deterministic: every such word x eight positions x (own alias | alias of an earlier event | nested
    field of the own message), and the same with words that are keywords elsewhere. Whatever the parser accepts must
    make the round trip; only the own-alias rows of the nine words are expected to fail (and are matched as F24)."""
    for words, label in ((F24_WORDS, 'reserved-word'), (F24_CONTROL_WORDS, 'other-keyword')):
        for w in words:
            for form in F24_FORMS:
                texts = {
                    'own-alias': 'globally: no t as A {' + form.format(a='A', w=w) + '}',
                    'earlier-alias': 'globally: u as A causes t {' + form.format(a='A', w=w) + '}',
                    'nested-own-field': 'globally: no t {' + form.replace('@{a}', 'pos').format(w=w) + '}',
                }
                for how, text in texts.items():
                    inp = {'kind': 'property', 'text': text}
                    try:
                        r = 'holds' if sub_roundtrip(inp) is not None else 'rejected-by-parser'
                    except Violation as v:
                        if ctx.suppressed(v):
                            r = 'known-finding'
                        else:
                            ctx.report(v)
                            r = 'violation'
                    ctx.case(text, r != 'rejected-by-parser', f'field-named-like-{label}:{how}:{r}', sample=text if r == 'known-finding' and form == F24_FORMS[0] else None)


def run(ctx):
    if ctx.tier == 'quick':
        core.run_sharded(ctx, __name__, 'shard', 1, (2500,))
    else:
        core.run_sharded(ctx, __name__, 'shard', getattr(ctx, 'shards_override', None) or 16, (30000,))
