# C10 refactor_reference isolates the alias-dependent part without changing meaning.

from hplverif import astx, core, ev, lib, sem
from hplverif.core import Violation
from hplverif.tape import from_tape

RULE = (
    'boolean type-directed terms mentioning zero, one or several aliases at any depth (negations, implications, '
    'quantifier bodies and domains), as predicates and as expressions, plus the boolean part of the small grammar; '
    'refactor_reference(f, A) is called for every alias of the case and for one absent alias; (f1, f2) must satisfy '
    'f1 and f2 == f on every defined grid valuation (reference evaluator), f1 must not mention @A (own walker), no '
    'bound variable may occur free in f1/f2, kinds are preserved, and when f does not mention A the result is (f itself, True). '
    'Non-trivial: f mentions A (classes: really split / moved whole); distinct by (text, alias).'
)
ASSUMPTIONS = ['hplverif/ev.py is the meaning of expressions; undefined/ambiguous valuations are skipped and counted']


def _rr():
    from hpl.rewrite import refactor_reference

    return refactor_reference


def _is_true(node):
    c = astx.cname(node)
    if c == 'HplVacuousTruth':
        return True
    return c == 'HplLiteral' and node.value is True


def check_case(inp, limit=64, stats=None):
    a = sem.parse_case(inp)
    if a is None:
        return 'rejected-by-parser'
    alias = inp['alias']
    text = inp['text']
    model = astx.to_model(a)
    mentions = astx.mentions_var(a, alias)
    st, r = core.guarded(_rr(), a, alias)
    if st == 'exc':
        raise Violation('refactor', f'raises:{core.exc_sig(r)}', inp, f'refactor_reference({text!r}, {alias!r}) raised {type(r).__name__}: {str(r)[:300]}')
    if not (isinstance(r, tuple) and len(r) == 2):
        raise Violation('refactor', 'kind', inp, f'refactor_reference returned {r!r}'[:300])
    f1, f2 = r
    is_pred = getattr(a, 'is_predicate', False)
    for f in (f1, f2):
        if is_pred != bool(getattr(f, 'is_predicate', False)) or (not is_pred and not getattr(f, 'is_expression', False)):
            raise Violation('refactor', 'kind', inp, f'refactor_reference({text!r}) returned a {type(f).__name__} for a {"predicate" if is_pred else "expression"}')
    if not mentions:
        # "f itself (unchanged)": the same object, or (predicates are re-wrapped) an equal tree with the same stored types
        # a predicate whose condition is a boolean literal (only other API functions build such objects) may come back as
        # the canonical vacuous truth / contradiction: the same predicate, normalised
        degenerate = model in (('lit', 'bool', True), ('lit', 'bool', False)) and astx.to_model(f1) == model
        if f1 is not a and not degenerate and (f1 != a or astx.snapshot(f1) != astx.snapshot(a)):
            raise Violation('refactor', 'identity', inp, f'{text!r} does not mention @{alias}, but the first result is not the unchanged input: {f1}')
        if not _is_true(f2):
            raise Violation('refactor', 'identity', inp, f'{text!r} does not mention @{alias}, but the second result is {f2}, not True')
        return 'no-mention'
    if astx.mentions_var(f1, alias):
        raise Violation('refactor', f'alias-left:{sem.shape(model)}', inp, f'first result still references @{alias}: {f1}\ninput: {a}')
    free = astx.free_refs(a)
    for name, f in (('f1', f1), ('f2', f2)):
        extra = astx.free_refs(f) - free
        if extra:
            raise Violation('refactor', f'escaped-variable:{sem.shape(model)}', inp, f'{name} = {f} has free variables {sorted(extra)} that are not free in the input {a}')
    m1, m2 = astx.to_model(f1), astx.to_model(f2)
    conj = ('bin', 'and', m1, m2)
    envs = sem.envs_for(model, inp, limit, extra=(m1, m2))
    defined = 0
    for e in envs:
        s0, v0 = ev.try_ev(model, e)
        if stats is not None:
            stats['val:' + s0] = stats.get('val:' + s0, 0) + 1
        if s0 != 'ok':
            continue
        s1, v1 = ev.try_ev(conj, e)
        if s1 in ('ambig', 'illcond'):
            continue
        defined += 1
        if s1 == 'undef' or v1 != v0:
            raise Violation(
                'refactor', f'value:{sem.shape(model)}', inp,
                f'f1 and f2 is {v1 if s1 == "ok" else "undefined (" + str(v1) + ")"} but f is {v0}\nf:  {a}\nf1: {f1}\nf2: {f2}\nvaluation: this={e.this} vars={e.vars}',
            )  # fmt: skip
    if not defined:
        return 'never-defined'
    return 'moved-whole' if _is_true(f1) else 'split'


def sub_refactor(inp):
    return check_case(inp, limit=256)


SUBS = {'refactor': sub_refactor}


def _aliases_of(inp):
    return sorted(inp.get('aliases') or {}) + ['Zz']


def shard(ctx, shard_no, nshards, n_random, stride):
    limit = sem.limit_for(ctx.tier)
    stats = {}

    def body(inp):
        for alias in _aliases_of(inp):
            case = dict(inp, alias=alias)
            r = check_case(case, limit=limit, stats=stats)
            ctx.case((sem.case_key(inp), alias), r in ('split', 'moved-whole'), ('derived-input:' if inp.get('pre') else 'random:') + r, sample={'text': inp['text'], 'alias': alias} if r == 'split' else None)
            if alias in (inp.get('aliases') or {}) and not inp.get('pre') and core.h64(inp['text']) % 3 == 0:
                # history: the functions have been called on this object; a copy with the alias renamed (made by the
                # library through but()) is then refactored for the new name - nothing of the first round may stick
                ren = dict(inp, pre=['warm', f'rename:{alias}:Q9'], alias='Q9', aliases=dict(inp['aliases'], Q9=inp['aliases'][alias]))
                r2 = check_case(ren, limit=limit, stats=stats)
                ctx.case((sem.case_key(ren), 'Q9'), r2 in ('split', 'moved-whole'), 'renamed-copy:' + r2)
                if inp.get('this') is not None:
                    # ... and a copy in which the current message became a variable, refactored for the SAME alias
                    mv = dict(inp, pre=['warm', 'this_to_var:W9'], alias=alias, aliases=dict(inp['aliases'], W9=inp['this']))
                    r3 = check_case(mv, limit=limit, stats=stats)
                    ctx.case((sem.case_key(mv), alias), r3 in ('split', 'moved-whole'), 'this-as-variable-copy:' + r3)

    with ctx.timed('random'):
        core.run_hypothesis(ctx, 'random', from_tape(lambda ch: sem.random_bool_case(ch, kinds=('condition', 'predicate', 'expression'))), body, n_random)
    with ctx.timed('small'):
        for name, inp in sem.small_cases(ctx.seed, stride, shard_no, nshards, quant_stride=max(1, stride // 8)):
            for alias in ('A', 'Zz'):
                case = dict(inp, alias=alias)
                try:
                    r = check_case(case, limit=limit, stats=stats)
                except Violation as v:
                    ctx.report(v)
                    r = 'violation'
                ctx.case((inp['text'], alias), r in ('split', 'moved-whole'), f'small:{name}:{r}', sample={'text': inp['text'], 'alias': alias} if r == 'split' else None)
                if alias == 'A' and r == 'split' and core.h64(inp['text']) % 6 == 0:
                    ren = dict(inp, pre=['warm', 'rename:A:Q9'], alias='Q9', aliases=dict(inp['aliases'], Q9=inp['aliases']['A']))
                    try:
                        r2 = check_case(ren, limit=limit, stats=stats)
                    except Violation as v:
                        ctx.report(v)
                        r2 = 'violation'
                    ctx.case((inp['text'], 'renamed'), r2 in ('split', 'moved-whole'), f'small-renamed-copy:{r2}')
                    mv = dict(inp, pre=['warm', 'this_to_var:W9'], alias='A', aliases=dict(inp['aliases'], W9=inp['this']))
                    try:
                        r3 = check_case(mv, limit=limit, stats=stats)
                    except Violation as v:
                        ctx.report(v)
                        r3 = 'violation'
                    ctx.case((inp['text'], 'this-as-variable'), r3 in ('split', 'moved-whole'), f'small-this-as-variable-copy:{r3}')
    for k, v in stats.items():
        ctx.count(k, v)


def run(ctx):
    if ctx.tier == 'quick':
        core.run_sharded(ctx, __name__, 'shard', 4, (350, 30))
    else:
        core.run_sharded(ctx, __name__, 'shard', getattr(ctx, 'shards_override', None) or 16, (12000, 1))
        ctx.exhaustive['small-grammar-boolean-part'] = True
        with ctx.timed('atheris'):
            from hplverif import fuzz

            fuzz.tape_campaigns(ctx, 'C10', 8, 60000)



def extra_evidence(ctx):
    return {'exhaustive': False}
