# C08 simplify preserves meaning.

from hplverif import astx, core, ev, gen, lib, mast, sem, small, values
from hplverif.core import Violation
from hplverif.tape import from_tape

RULE = (
    'type-directed random predicates/expressions (depth <= 5: booleans, numbers, strings, arrays, sets, ranges, '
    'quantifiers, built-ins) and every term of a small grammar (numeric depth 2, comparisons, propositional depth 2, '
    'quantifiers over array/set/range) are parsed, simplified, and both forms are evaluated by a reference evaluator '
    '(exact rational arithmetic, strict undefinedness) on a grid of valuations (numbers -1,0,1,2,1/2; booleans; two '
    'strings; arrays of length 0-2 incl. empty); they must agree wherever the original is defined. Also: same type, '
    'predicate->predicate with vacuous truth/contradiction exactly when the condition folds to True/False; simplify '
    'may raise only for an identically-zero divisor or an undefined constant sub-term. A secondary family builds multi-argument '
    'calls (max, min, gcd, log, atan2) through the API, which text cannot express. A third of the inputs are not parser output but the '
    'result of one or two other API functions applied to it (simplify itself, negate, a part of split_and, a half of refactor_reference, join, '
    'the this/var replacements). Non-trivial: simplify changed '
    'the tree and at least one valuation was defined; distinct by text.'
)
ASSUMPTIONS = [
    'the reference evaluator (hplverif/ev.py) is the meaning of HPL expressions; it abstains (counted) on undefined originals, '
    'on aggregates over set literals with coinciding values, on non-integer/reversed ranges and on comparisons decided by a float near-tie',
    'closed sub-terms are bounded (|value| <= 1e6, exponents <= 16) because simplify folds constants eagerly',
]


def _simplify():
    from hpl.rewrite import simplify

    return simplify


def _limit(tier):
    return 64 if tier == 'quick' else 256


def _contains_zero_divisor_or_undefined_constant(model, envs):
    """Is a raise from simplify allowed? (division by an identically-zero divisor, or an undefined closed sub-term)

    Returns True also when the oracle cannot tell (a divisor on which the evaluator abstains everywhere).
    """
    bound_names = {x[2] for x in ev._walk(model) if x[0] == 'q'}
    for n in ev._walk(model):
        closed = not any(x[0] in ('this', 'var') for x in ev._walk(n))
        if n[0] == 'lit' and isinstance(n[2], float) and (n[2] != n[2] or n[2] in (float('inf'), float('-inf'))):
            return True  # INF / NAN are outside the evaluator's domain
        if closed and n[0] in ('bin', 'un', 'call', 'calln', 'index', 'range', 'set'):
            st, _ = ev.try_ev(n, ev.Env())
            if st in ('undef', 'ambig', 'illcond'):
                return True  # undefined, or the oracle cannot interpret this constant: abstain
        if n[0] == 'bin' and n[1] == '/':
            statuses = set()
            nonzero = False
            for e in envs or [ev.Env()]:
                st, v = ev.try_ev(n[3], e)
                if st == 'undef' and 'unbound variable' in v:
                    if v.split('@')[-1] not in bound_names:
                        return True  # a free reference without a valuation (no schema given): abstain
                    nonzero = True  # under a quantifier: only closed divisors are judged
                    break
                statuses.add(st)
                if st == 'ok' and v != 0:
                    nonzero = True
                    break
            if not nonzero and ('ok' in statuses or 'ambig' in statuses or 'illcond' in statuses):
                return True
        if not closed and n[0] in ('call', 'calln', 'bin') and envs:
            # a sub-term that is undefined (never defined, at least once undefined) on the whole grid:
            # folding inside it (e.g. len of a set literal) can turn it into an undefined constant
            sts = set()
            for e in envs:
                st, v = ev.try_ev(n, e)
                if st == 'undef' and 'unbound variable' in v:
                    sts.add('ok')
                    break
                sts.add(st)
                if st == 'ok':
                    break
            if 'ok' not in sts:
                return True  # never defined on the grid: nothing the oracle could compare
    return False


PRE_STEPS = sem.PRE_STEPS
apply_pre = sem.apply_pre


def check_case(inp, limit=64, stats=None):
    """inp: {'kind': 'expression'|'predicate'|'condition', 'text', 'this': schema|None, 'aliases': {name: schema}, 'pre': [steps]?}"""
    kind, text = inp['kind'], inp['text']
    k, a = lib.outcome(kind, text)
    if k != 'ast':
        return 'rejected-by-parser'
    if inp.get('pre'):
        a = apply_pre(a, inp['pre'])
        if a is None:
            return 'pre-not-applicable'
        text = f'{"+".join(inp["pre"])}({text})'
    simplify = _simplify()
    is_pred = bool(getattr(a, 'is_predicate', False))
    model = astx.to_model(a)
    if not ev.closed_ok(model):
        return 'size-bound'
    this, aliases = inp.get('this'), inp.get('aliases') or {}
    envs = [ev.Env(t, v) for t, v in values.valuations(model, this, aliases, limit)]
    st, r = core.guarded(simplify, a)
    if st == 'exc':
        if isinstance(r, RecursionError):
            raise Violation('simplify', f'raises:{core.exc_sig(r)}', inp, f'simplify({text!r}) raised {type(r).__name__}')
        if _contains_zero_divisor_or_undefined_constant(model, envs):
            return 'raised-allowed'
        raise Violation(
            'simplify', f'raises:{core.exc_sig(r)}', inp,
            f'simplify({text!r}) raised {type(r).__name__}: {str(r)[:300]} although the input has no identically-zero divisor and no undefined constant sub-term',
        )  # fmt: skip
    # kinds and types
    if is_pred:
        if not getattr(r, 'is_predicate', False):
            raise Violation('simplify', 'kind', inp, f'simplify(predicate) returned {type(r).__name__} for {text!r}')
        st2, e = core.guarded(simplify, a.condition)
        if st2 == 'ok':
            c = astx.cname(r)
            lit = astx.cname(e) == 'HplLiteral'
            if lit and e.value is True and c != 'HplVacuousTruth':
                raise Violation('simplify', 'vacuity', inp, f'condition of {text!r} folds to True but the predicate became {c}')
            if lit and e.value is False and c != 'HplContradiction':
                raise Violation('simplify', 'vacuity', inp, f'condition of {text!r} folds to False but the predicate became {c}')
            if not (lit and isinstance(e.value, bool)) and c != 'HplPredicateExpression':
                raise Violation('simplify', 'vacuity', inp, f'condition of {text!r} folds to {e} but the predicate became {c}')
    else:
        if not getattr(r, 'is_expression', False):
            raise Violation('simplify', 'kind', inp, f'simplify(expression) returned {type(r).__name__} for {text!r}')
        if r.data_type != a.data_type:
            raise Violation(
                'simplify', f'type:{a.data_type.value}->{r.data_type.value}', inp,
                f'simplify changed the type of {text!r}: {a.data_type} -> {r.data_type} ({r})',
            )  # fmt: skip
    rmodel = astx.to_model(r)
    changed = rmodel != model
    defined = 0
    for e in envs:
        s0, v0 = ev.try_ev(model, e)
        if stats is not None:
            stats['val:' + s0] = stats.get('val:' + s0, 0) + 1
        if s0 != 'ok':
            continue
        s1, v1 = ev.try_ev(rmodel, e)
        if s1 in ('ambig', 'illcond'):
            if stats is not None:
                stats['val:simplified-' + s1] = stats.get('val:simplified-' + s1, 0) + 1
            continue
        defined += 1
        if s1 == 'undef':
            raise Violation(
                'simplify', f'introduces-undefined:{_shape(model)}', inp,
                f'simplified form is undefined ({v1}) where the original evaluates to {v0!r}\n'
                f'original:   {a}\nsimplified: {r}\nvaluation:  this={e.this} vars={e.vars}',
            )  # fmt: skip
        if not ev.same_value(v0, v1):
            raise Violation(
                'simplify', f'value:{_shape(model)}', inp,
                f'simplify changes the value: {v0!r} -> {v1!r}\noriginal:   {a}\nsimplified: {r}\nvaluation:  this={e.this} vars={e.vars}',
            )  # fmt: skip
    if changed and defined:
        return 'changed'
    if defined:
        return 'unchanged'
    return 'never-defined'


def _shape(model):
    ops = sorted({(n[1] if n[0] in ('bin', 'un', 'call', 'calln', 'q') else n[0]) for n in ev._walk(model) if n[0] in ('bin', 'un', 'call', 'calln', 'q', 'set', 'range')})
    return ','.join(ops)[:80]


def sub_simplify(inp):
    return check_case(inp, limit=256)


def build_api_call(inp):
    """A multi-argument built-in call (not reachable from text): HplFunctionCall(name, parsed arguments)."""
    from hpl.ast import HplBinaryOperator, HplFunctionCall, HplLiteral

    args = []
    for t in inp['args']:
        k, a = lib.outcome('expression', t)
        if k != 'ast':
            return None
        args.append(a)
    st, call = core.guarded(HplFunctionCall, inp['fn'], tuple(args))
    if st == 'exc':
        return None
    if inp.get('wrap'):
        st, call = core.guarded(HplBinaryOperator, inp['wrap'], call, HplLiteral.number(1))
        if st == 'exc':
            return None
    return call


def sub_api_call(inp, limit=128):
    """inp: {'fn', 'args': [expression texts], 'wrap': None|'>'|'=' , 'this', 'aliases'}"""
    a = build_api_call(inp)
    if a is None:
        return 'rejected'
    model = astx.to_model(a)
    if not ev.closed_ok(model):
        return 'size-bound'
    envs = [ev.Env(t, v) for t, v in values.valuations(model, inp.get('this'), inp.get('aliases') or {}, limit)]
    st, r = core.guarded(_simplify(), a)
    if st == 'exc':
        if not isinstance(r, RecursionError) and _contains_zero_divisor_or_undefined_constant(model, envs):
            return 'raised-allowed'
        raise Violation('api_call', f'raises:{core.exc_sig(r)}', inp, f'simplify({a}) raised {type(r).__name__}: {str(r)[:300]}')
    if not getattr(r, 'is_expression', False) or r.data_type != a.data_type:
        raise Violation('api_call', 'kind-or-type', inp, f'simplify({a}) returned {r!r}'[:300])
    rmodel = astx.to_model(r)
    defined = 0
    for e in envs:
        s0, v0 = ev.try_ev(model, e)
        if s0 != 'ok':
            continue
        s1, v1 = ev.try_ev(rmodel, e)
        if s1 in ('ambig', 'illcond'):
            continue
        defined += 1
        if s1 == 'undef' or not ev.same_value(v0, v1):
            raise Violation('api_call', f'value:{inp["fn"]}', inp, f'simplify changes the value of {a}: {v0!r} -> {v1 if s1 == "ok" else "undefined"}\nsimplified: {r}\nvaluation: this={e.this} vars={e.vars}')
    return ('changed' if rmodel != model else 'unchanged') if defined else 'never-defined'


SUBS = {'simplify': sub_simplify, 'api_call': sub_api_call}


def gen_api_call(ch):
    schema = gen.schemas(ch, depth=1)
    aliases = {'A': gen.schemas(ch, depth=1, small=True)} if ch.bool() else {}
    env = gen.Env(schema, aliases, reserved=set(aliases))
    fn = ch.pick(['max', 'max', 'min', 'min', 'gcd', 'log', 'atan2'])
    n = 2 if fn in ('log', 'atan2') else ch.int(2, 5)
    args = []
    for _ in range(n):
        k = ch.int(0, 3)
        if k == 0:
            m = gen._lit(ch, 'N')
        elif k == 1:
            m = gen.ref_term(ch, env, 'N', 0) or gen._lit(ch, 'N')
        else:
            m = gen.typed_term(ch, env, 'N', ch.int(0, 2))
        args.append(mast.render(m))
    return {'fn': fn, 'args': args, 'wrap': ch.pick([None, '>', '=', '<']), 'this': schema, 'aliases': aliases}


def random_cases(ch):
    kind = ch.pick(['expression', 'expression', 'predicate', 'condition'])
    depth = ch.int(1, 5)
    if kind == 'expression':
        m, T, schema, aliases = gen.standalone_terms(ch, depth=depth)
    else:
        m, schema, aliases = gen.standalone_predicates(ch, depth=depth)
    text = mast.render(('pred', m) if kind == 'predicate' else m)
    pre = []
    if ch.int(0, 2) == 0:
        pre = [ch.pick(PRE_STEPS) for _ in range(ch.int(1, 2))]
    return {'kind': kind, 'text': text, 'this': schema, 'aliases': aliases, 'pre': pre}


def shard(ctx, shard_no, nshards, n_random, small_stride):
    limit = _limit(ctx.tier)
    stats = {}

    def body(inp):
        r = check_case(inp, limit=limit, stats=stats)
        label = 'random:' if not inp.get('pre') else 'derived-input:'
        ctx.case((inp['text'], tuple(inp.get('pre') or ())), r == 'changed', label + r, sample=inp['text'] if r == 'changed' and not inp.get('pre') else None)
        for st_ in inp.get('pre') or ():
            ctx.count('pre-step:' + st_)

    with ctx.timed('random'):
        core.run_hypothesis(ctx, 'random', from_tape(random_cases), body, n_random)

    def body_api(inp):
        r = sub_api_call(inp, limit)
        ctx.case(('api', inp['fn'], tuple(inp['args']), inp['wrap']), r == 'changed', 'api-call:' + inp['fn'] + ':' + r, sample=inp if r == 'changed' else None)

    with ctx.timed('api-calls'):
        core.run_hypothesis(ctx, 'api', from_tape(gen_api_call), body_api, max(200, n_random // 3))
    # small-scope families: deterministic slices (stride; the law tables denser, the aggregate tables completely), split over shards
    fams = small.families()
    tot = small.total(fams)
    with ctx.timed('small'):
        for n_, (name, inp) in enumerate(sem.small_cases(ctx.seed, small_stride, shard_no, nshards, boolean_only=False)):
            try:
                r = check_case(inp, limit=limit, stats=stats)
            except Violation as v:
                ctx.report(v)
                r = 'violation'
            ctx.case(inp['text'], r == 'changed', f'small:{name}:{r}', sample=inp['text'] if r == 'changed' else None)
            if r == 'changed' and n_ % 8 == 0:
                # the simplified form is itself an input (second application), and so is its negation
                for pre in (['simplify'], ['simplify', 'negate']):
                    inp2 = dict(inp, pre=pre)
                    try:
                        r2 = check_case(inp2, limit=limit, stats=stats)
                    except Violation as v:
                        ctx.report(v)
                        r2 = 'violation'
                    ctx.case((inp['text'], tuple(pre)), r2 == 'changed', f'small-derived:{r2}')
    for k, v in stats.items():
        ctx.count(k, v)
    if shard_no == 0:
        ctx.count('small:family-size', tot)


def run(ctx):
    if ctx.tier == 'quick':
        core.run_sharded(ctx, __name__, 'shard', 4, (350, 40))
        ctx.exhaustive['small-grammar'] = False
    else:
        core.run_sharded(ctx, __name__, 'shard', getattr(ctx, 'shards_override', None) or 16, (10000, 1))
        ctx.exhaustive['small-grammar'] = True
        with ctx.timed('atheris'):
            from hplverif import fuzz

            fuzz.tape_campaigns(ctx, 'C08', 8, 60000)



def extra_evidence(ctx):
    return {'exhaustive': False if ctx.tier == 'quick' else None} if ctx.tier == 'quick' else {
        'exhaustive': False,
        'exhaustive_note': 'the small grammar is enumerated completely in the thorough tier; the random family is sampled',
    }
