# C18 A specification file is exactly its sequence of annotated properties.

from hplverif import astx, core, gen, lib, mast, match
from hplverif.core import Violation
from hplverif.mast import binop, own
from hplverif.tape import from_tape

RULE = (
    'files of 1..6 generated properties (every scope start and pattern ending: bare event, alias, predicate, time bound in s / ms), each with any '
    'subset and order of # id / title / description annotations and its own layout, joined by arbitrary whitespace (none where a property ends in "}"); '
    'oracle: parse_specification(file).properties[i] equals parse_property(part i) for all i, same count and order, each carrying exactly the '
    'annotations written in its own part (compared with the model tree, not with another parse). Single-fault variants: one member made invalid '
    '(syntax, type or sanity), a duplicate or unknown annotation key, an annotation after the last property, the empty / all-whitespace file: the '
    'file must raise the class the offending part raises alone (HplSyntaxError for annotation faults and empty files). Also: properties that are '
    'structurally equal but annotated differently, within one file and across parses. Non-trivial: >= 2 properties and >= 1 annotation, or a faulty '
    'member that is not the last; distinct by text.'
)
ASSUMPTIONS = ['the model tree of each part is what the parser builds for it (property C01); exception classes of single parts come from parse_property itself']

SEPS = (' ', '\n', '\n\n', '\t', '  \n  ', '\r\n', ' \n# ', None)


def join_parts(ch, parts):
    out = ''
    for i, p in enumerate(parts):
        if i:
            if out.rstrip().endswith('}') and ch.int(0, 3) == 0:
                sep = ''
            else:
                sep = ch.pick(SEPS[:6])
            out += sep
        out += p
    lead = ch.pick(['', '', ' ', '\n', '\t\n'])
    trail = ch.pick(['', '', '\n', '  ', '\n\n'])
    return lead + out + trail


def sub_file(inp):
    """inp: {'parts': [text...], 'models': [property model...], 'file': text}"""
    parts, models, text = inp['parts'], inp['models'], inp['file']
    k, spec = lib.outcome('specification', text)
    if k != 'ast':
        raise Violation('file', f'rejected:{k}', inp, f'a file of {len(parts)} valid properties is rejected: {type(spec).__name__}: {str(spec)[:300]}\nfile: {text!r}')
    if astx.cname(spec) != 'HplSpecification' or len(spec.properties) != len(parts):
        raise Violation('file', 'count', inp, f'expected {len(parts)} properties, got {len(getattr(spec, "properties", ()))}\nfile: {text!r}')
    for i, (part, m, p) in enumerate(zip(parts, models, spec.properties)):
        diffs = []
        match.match_property(core.detuple(m), p, f'properties[{i}]', diffs)
        if diffs:
            raise Violation('file', 'member:' + ('metadata' if any('metadata' in d for d in diffs) else 'structure'), inp, 'a member of the file differs from its own text:\n  ' + '\n  '.join(diffs[:5]) + f'\nfile: {text!r}')
        k2, alone = lib.outcome('property', part)
        if k2 != 'ast':
            raise Violation('file', f'part-rejected:{k2}', inp, f'part {i} is accepted inside the file but rejected on its own: {part!r}')
        if alone != p:
            raise Violation('file', 'member-vs-alone', inp, f'properties[{i}] differs from parse_property of its own text\nin file: {p}\nalone:   {alone}')
        if dict(alone.metadata) != dict(p.metadata):
            raise Violation('file', 'metadata-vs-alone', inp, f'properties[{i}].metadata = {p.metadata}, parse_property gives {alone.metadata}')
        diffs = []
        match.match_property(core.detuple(m), alone, f'part[{i}]', diffs)
        if diffs:
            raise Violation('file', 'alone:' + ('metadata' if any('metadata' in d for d in diffs) else 'structure'), inp, 'parse_property of a part differs from its own text:\n  ' + '\n  '.join(diffs[:5]) + f'\npart: {part!r}')
    # the file parse must not have been altered by the later stand-alone parses
    for i, (m, p) in enumerate(zip(models, spec.properties)):
        diffs = []
        match.match_property(core.detuple(m), p, f'properties[{i}]', diffs)
        if diffs:
            raise Violation('file', 'member-changed-later', inp, 'a member of the parsed file changed after later parses:\n  ' + '\n  '.join(diffs[:5]))
    return spec


def sub_fault(inp):
    """inp: {'file': text, 'expect': 'syntax'|'type'|'sanity', 'fault': description}"""
    k, r = lib.outcome('specification', inp['file'])
    if k != inp['expect']:
        got = f'accepted: {str(r)[:200]}' if k == 'ast' else f'{type(r).__name__}: {str(r)[:200]}'
        raise Violation('fault', f'{inp["fault"]}:{inp["expect"]}->{k}', inp, f'file with fault "{inp["fault"]}" should be rejected with a {inp["expect"]} error, but: {got}\nfile: {inp["file"]!r}')
    return k


SUBS = {'file': sub_file, 'fault': sub_fault}


def gen_parts(ch, n=None):
    n = n or ch.pick([1, 2, 2, 3, 3, 4, 5, 6])
    models, parts = [], []
    for _ in range(n):
        m, _info = gen.properties(ch, depth=ch.int(0, 2), max_width=2)
        models.append(m)
        parts.append(mast.render(m, gen.layouts(ch)))
    return models, parts


def gen_file(ch):
    models, parts = gen_parts(ch)
    if ch.int(0, 3) == 0 and len(models) >= 2:
        # structurally equal neighbours with different annotations
        i = ch.int(0, len(models) - 1)
        j = ch.int(0, len(models) - 1)
        if i != j:
            metas = [(), (('id', 'first'),), (('title', '"T"'), ('description', '"D"')), (('id', 'x2'), ('title', '"other"'))]
            mi = ch.pick(metas)
            mj = ch.pick([x for x in metas if x != mi])
            base = models[i]
            models[i] = ('prop', mi, base[2], base[3])
            models[j] = ('prop', mj, base[2], base[3])
            parts[i] = mast.render(models[i])
            parts[j] = mast.render(models[j], gen.layouts(ch))
    return {'parts': parts, 'models': models, 'file': join_parts(ch, parts)}


BAD_MEMBERS = {
    'type': ('prop', (), ('scope', 'globally', None, None), ('pat', 'absence', None, ('ev', 'tt', None, binop('>', binop('+', own('x'), ('lit', 'str', '"a"')), ('lit', 'int', '1'))), None)),
    'sanity': ('prop', (('id', 'bad'),), ('scope', 'globally', None, None), ('pat', 'existence', None, ('ev', 'tt', None, binop('=', own('x'), ('field', ('var', 'Zq'), 'x'))), None)),
    'sanity2': ('prop', (), ('scope', 'globally', None, None), ('pat', 'absence', None, ('disj', (('ev', 'tt', None, None), ('ev', 'tt', None, None))), None)),
}


def gen_fault(ch):
    models, parts = gen_parts(ch, ch.pick([1, 2, 3, 4]))
    kind = ch.pick(['member-type', 'member-sanity', 'member-syntax', 'duplicate-key', 'unknown-key', 'trailing-annotation', 'empty', 'member-sanity2', 'broken-annotation-line', 'member-two-faults'])
    pos = ch.int(0, len(parts))
    if kind == 'empty':
        return {'file': ch.pick(['', ' ', '\n\n', '\t \r\n']), 'expect': 'syntax', 'fault': kind, 'position': 0, 'count': 0}
    if kind in ('member-type', 'member-sanity', 'member-sanity2'):
        bad = mast.render(BAD_MEMBERS[kind.split('-')[1]])
        expect = 'type' if kind == 'member-type' else 'sanity'
        parts.insert(pos, bad)
    elif kind == 'member-two-faults':
        # one member with two faults of different kinds - a type or sanity error on the left, a syntax error further right:
        # the file must be rejected with the class this member raises on its own (whichever fault the parser meets first)
        first = ch.pick(['globally: no a {x + "s" > 1}', 'globally: no a {not 42}', 'globally: a as X causes b as X', 'globally: no (a or a)',
                         'globally: no a {x > @Zq.x}', 'globally: some a {len(1) > 0}', 'globally: no a {(x + 1) and y}', 'after p {not (x + 1)}: no a'])  # fmt: skip
        bad = first + ch.pick([' within 5 parsecs', ' causes', ' }', ' within', ' or', ' {', ' ;'])
        expect = lib.outcome('property', bad)[0]
        if expect not in ('syntax', 'type', 'sanity'):
            raise core.HarnessError(f'the member {bad!r} is not rejected on its own: {expect}')
        parts.insert(pos, bad)
    elif kind == 'member-syntax':
        bad = ch.pick(['globally: = = no a', 'globally no a', 'after: no a', 'globally: no a {', 'globally: a causes', 'globally: no a within 3', 'globally: no (a or)'])
        expect = 'syntax'
        parts.insert(pos, bad)
    elif kind == 'duplicate-key':
        key = ch.pick(['id', 'title', 'description'])
        val = {'id': ['p1', 'p2'], 'title': ['"a"', '"b"'], 'description': ['"a"', '"b"']}[key]
        others = [k for k in ('id', 'title', 'description') if k != key]
        oval = {'id': 'other', 'title': '"t"', 'description': '"d"'}
        # the two occurrences may be adjacent or separated by other keys, with other keys before / after
        items = [f'# {key}: {val[0]}']
        for o in ch.sample(others, min_size=0, max_size=2):
            items.insert(ch.int(0, len(items)), f'# {o}: {oval[o]}')
        items.insert(ch.int(0, len(items)), f'# {key}: {val[1]}')
        bad = ' '.join(items) + ' globally: no a'
        expect = 'syntax'
        parts.insert(pos, bad)
    elif kind == 'broken-annotation-line':
        # one annotation line damaged by a fault that stays on its line (a quote or the colon missing, a quote doubled);
        # string literals cannot span lines, so no later member can repair it - whatever quotes the neighbours contain
        lines = ['# id: p_bad', '# title: "a title"', '# description: "some text"']
        ch.sample(lines, min_size=1, max_size=3)
        lines = ch.sample(lines, min_size=1, max_size=3)
        cand = [i for i, l in enumerate(lines) if '"' in l] or [0]
        i = ch.pick(cand)
        l = lines[i]
        f = ch.int(0, 3)
        if f == 0 and '"' in l:
            l = l[: l.rindex('"')] + l[l.rindex('"') + 1 :]  # closing quote missing
        elif f == 1 and '"' in l:
            l = l[: l.index('"')] + l[l.index('"') + 1 :]  # opening quote missing
        elif f == 2:
            l = l.replace(':', '', 1)
        else:
            l = l + '"' if '"' in l else l.replace(':', '::', 1)
        lines[i] = l
        bad = '\n'.join(lines + ['globally: no a'])
        after = ch.pick(['# description: "after"\nglobally: no zz', '# title: "t2"\n# description: "d2"\nglobally: some zz', 'globally: no zz {s = "str"}',
                         # a second damaged member (each of the two raises a syntax error on its own, so does the file)
                         '# description: after"\nglobally: no zz', '# title: t2"\nglobally: some zz', '# id: q\n# description: "d2\nglobally: no zz', 'globally: no zz {s = str"}'])  # fmt: skip
        expect = 'syntax'
        parts.insert(pos, bad)
        parts.insert(pos + 1, after)
        if lib.outcome('property', bad)[0] != 'syntax':
            raise core.HarnessError(f'the damaged member {bad!r} does not raise a syntax error on its own')
        return {'file': '\n'.join(parts), 'expect': expect, 'fault': kind, 'position': pos, 'count': len(parts)}
    elif kind == 'unknown-key':
        bad = ch.pick(['# author: "me" globally: no a', '# Id: p globally: no a', '# id p globally: no a', '# title: untitled globally: no a'])
        if ch.bool():
            # a key derived from a known one (a piece of it, one character more, other case, two glued), with either kind of value
            base = ch.pick(['id', 'title', 'description'])
            form = ch.int(0, 4)
            if form == 0:
                i = ch.int(0, len(base) - 1)
                j = ch.int(i + 1, len(base))
                key = base[i:j]
            elif form == 1:
                key = base + ch.pick(['s', 'x', '_', '1', 'id'])
            elif form == 2:
                key = ch.pick([base.upper(), base.capitalize()])
            elif form == 3:
                key = ch.pick(['i', 'd', 't', 'e']) + base
            else:
                key = ch.pick(['desc', 'ident', 'name', 'titles', 'idtitle'])
            if key in ('id', 'title', 'description'):
                key = 'x' + key
            bad = f'# {key}: {ch.pick(["p", "name_1", "title", chr(34) + "text" + chr(34), chr(34) * 2])} globally: no a'
        expect = 'syntax'
        parts.insert(pos, bad)
    else:
        parts.append(ch.pick(['# id: last', '# title: "t"', '#']))
        expect = 'syntax'
        pos = len(parts) - 1
    return {'file': join_parts(ch, parts), 'expect': expect, 'fault': kind, 'position': pos, 'count': len(parts)}


def shard(ctx, shard_no, nshards, n):
    def body(inp):
        sub_file(inp)
        if any(k != 'id' for m in inp['models'] for k, _v in m[1]):
            # afterwards: the same properties under their ids only (no title / description); nothing of the earlier parse may stick
            models = [('prop', tuple((k, v) for k, v in m[1] if k == 'id'), m[2], m[3]) for m in inp['models']]
            parts = [mast.render(m) for m in models]
            sub_file({'parts': parts, 'models': models, 'file': '\n'.join(parts)})
            ctx.count('relative-files')
        k = len(inp['parts'])
        annotated = any(m[1] for m in inp['models'])
        ctx.case(inp['file'], k >= 2 and annotated, f'file:{min(k, 4)}{"+" if k > 4 else ""}:{"annotated" if annotated else "plain"}', sample=inp['file'][:400])

    with ctx.timed('files'):
        core.run_hypothesis(ctx, 'files', from_tape(gen_file, 2048), body, n)

    def body_f(inp):
        # the offending part alone decides the expected class for member faults (done in the generator by construction)
        sub_fault(inp)
        ctx.case(inp['file'], inp['position'] < inp['count'] - 1, 'fault:' + inp['fault'], sample=inp['file'][:300])

    with ctx.timed('faults'):
        core.run_hypothesis(ctx, 'faults', from_tape(gen_fault, 1536), body_f, n)


def selftest():
    # the bad members raise what the fault generator expects, on their own
    for kind, m in BAD_MEMBERS.items():
        k, _ = lib.outcome('property', mast.render(m))
        want = 'type' if kind == 'type' else 'sanity'
        if k != want:
            raise core.HarnessError(f'fault member {kind} raises {k} on its own, expected {want}')


def run(ctx):
    if ctx.tier == 'quick':
        core.run_sharded(ctx, __name__, 'shard', 1, (1200,))
    else:
        core.run_sharded(ctx, __name__, 'shard', getattr(ctx, 'shards_override', None) or 16, (12000,))
