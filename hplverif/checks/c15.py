# C15 Reference queries report exactly the references that occur.

from hplverif import astx, core, gen, lib, mast
from hplverif.core import Violation
from hplverif.mast import binop, own
from hplverif.tape import from_tape

RULE = (
    'systematic table: an @a reference, a current-message field and a quantifier binding a are placed in every child slot of every '
    'node kind (operands, set elements, both range bounds, index and indexed array, accessed object, quantifier domain and body, call '
    'argument), alone and below every other slot (two levels of context), as expression, as predicate and as the predicate of an aliased '
    'event inside a property; plus random type-directed expressions, predicates, simple/disjunctive events and properties. Every query '
    '(external_references, contains_reference, contains_self_reference, contains_definition, aliases, check_some_self_references, iterate) '
    'is compared with an own walker that reads child slots through getattr. Non-trivial: the queried name occurs in a slot other than a '
    'top-level operand; distinct by text.'
)
ASSUMPTIONS = ['hplverif/astx.py lists every child slot of every AST class (checked against attrs fields at start-up)']


def selftest():
    # every attrs field that holds AST nodes must be listed in astx.SLOTS
    import hpl.ast as A
    from hpl.ast.base import HplAstObject

    for name in dir(A):
        cls = getattr(A, name)
        if isinstance(cls, type) and issubclass(cls, HplAstObject) and name in astx.SLOTS:
            listed = {a for a, _ in astx.SLOTS[name]}
            for at in cls.__attrs_attrs__:
                if at.name in ('metadata', 'data_type'):
                    continue
                t = str(at.type)
                if ('Hpl' in t and 'Type' not in t.replace('HplEvent', '')) or at.name in listed:
                    if any(x in t for x in ('HplExpression', 'HplEvent', 'HplPredicate', 'HplScope', 'HplPattern', 'HplProperty')) and at.name not in listed:
                        raise core.HarnessError(f'astx.SLOTS[{name}] misses the child slot {at.name}')


NAMES = ('a', 'j', 'e', 'zz')


def check_queries(node, inp, sub='expr', vinp=None):
    """Compare every reference query of node (an expression or predicate) with the own walkers."""
    text = inp.get('text')
    vinp = vinp if vinp is not None else inp

    def bad(what, got, want):
        raise Violation(sub, f'{what}:{astx.cname(node)}', vinp, f'{what} of {text!r} ({node}) = {got!r}, own walker says {want!r}')

    free = astx.free_refs(node)
    st, r = core.guarded(node.external_references)
    if st == 'exc':
        raise Violation(sub, f'external_references:{core.exc_sig(r)}', vinp, f'external_references() of {text!r} raised {type(r).__name__}: {r}')
    if set(r) != free:
        bad('external_references()', sorted(r), sorted(free))
    occurring = {n.token[1:] for n in astx.preorder(node) if astx.cname(n) == 'HplVarReference'}
    occurring |= {n.variable for n in astx.preorder(node) if astx.cname(n) == 'HplQuantifier'}
    # names that merely resemble an occurring one (a suffix, a prefix, one more / one less character, other case) are asked too
    near = set()
    for n in sorted(occurring)[:4]:
        near |= {n[1:], n[:-1], n[-1:], n[:1], n + 'x', 'x' + n, n.swapcase(), n + '_'}
    names = sorted((set(NAMES) | occurring | near) - {''})
    for nm in names:
        st, r = core.guarded(node.contains_reference, nm)
        if st == 'exc' or bool(r) != astx.mentions_var(node, nm):
            bad(f'contains_reference({nm!r})', r, astx.mentions_var(node, nm))
        if hasattr(node, 'contains_definition'):
            st, r = core.guarded(node.contains_definition, nm)
            if st == 'exc' or bool(r) != astx.binds(node, nm):
                bad(f'contains_definition({nm!r})', r, astx.binds(node, nm))
    st, r = core.guarded(node.contains_self_reference)
    if st == 'exc' or bool(r) != astx.mentions_this(node):
        bad('contains_self_reference()', r, astx.mentions_this(node))
    check_iterate(node, vinp, sub)
    bare_this = any(astx.cname(k) == 'HplThisMessage' and not (astx.cname(n) == 'HplFieldAccess' and n.message is k) for n in astx.preorder(node) for k in astx.kids(n))
    if astx.cname(node) == 'HplPredicateExpression' and not bare_this:
        # (a predicate that uses the current message only as a bare value - possible through an own alias under roll /
        # pitch / yaw, finding F23 - references the message but none of its fields: the own-FIELD check is not judged there)
        from hpl.errors import HplSanityError

        try:
            node.check_some_self_references()
            passed = True
        except HplSanityError:
            passed = False
        except Exception as e:  # noqa
            raise Violation(sub, f'check_some_self_references:{core.exc_sig(e)}', vinp, f'check_some_self_references() of {text!r} raised {type(e).__name__}: {e}')
        if passed != astx.mentions_this(node):
            bad('check_some_self_references() passing', passed, astx.mentions_this(node))


def check_iterate(node, inp, sub='expr'):
    st, got = core.guarded(lambda: list(node.iterate()))
    want = astx.preorder(node)
    if st == 'exc':
        raise Violation(sub, f'iterate:{core.exc_sig(got)}', inp, f'iterate() raised {type(got).__name__}: {got}')
    if len(got) != len(want) or any(g is not w for g, w in zip(got, want)):
        raise Violation(
            sub, f'iterate:{astx.cname(node)}', inp,
            f'iterate() of {inp.get("text")!r} is not the pre-order, left-to-right list of nodes:\n got  {[astx.cname(x) + ":" + str(x)[:20] for x in got][:12]}\n want {[astx.cname(x) + ":" + str(x)[:20] for x in want][:12]}',
        )  # fmt: skip


def check_event(ev, inp, sub='property'):
    flat = astx.flat_events(ev)
    want_aliases = tuple(e.alias for e in flat if e.alias is not None)
    st, r = core.guarded(ev.aliases)
    if st == 'exc' or tuple(r) != want_aliases:
        raise Violation(sub, 'aliases', inp, f'aliases() of {ev} = {r!r}, expected {want_aliases!r} (source order)')
    free = set()
    for e in flat:
        free |= astx.free_refs(e)
    st, r = core.guarded(ev.external_references)
    if st == 'exc' or set(r) != free:
        raise Violation(sub, f'event-external_references:{astx.cname(ev)}', inp, f'external_references() of {ev} = {r!r}, own walker says {sorted(free)}')
    for nm in sorted(set(NAMES) | set(want_aliases)):
        want = any(astx.mentions_var(e.predicate, nm) for e in flat)
        st, r = core.guarded(ev.contains_reference, nm)
        if st == 'exc' or bool(r) != want:
            raise Violation(sub, f'event-contains_reference:{astx.cname(ev)}', inp, f'contains_reference({nm!r}) of {ev} = {r!r}, own walker says {want}')
    want = any(astx.mentions_this(e.predicate) for e in flat)
    st, r = core.guarded(ev.contains_self_reference)
    if st == 'exc' or bool(r) != want:
        raise Violation(sub, f'event-contains_self_reference:{astx.cname(ev)}', inp, f'contains_self_reference() of {ev} = {r!r}, own walker says {want}')
    st, r = core.guarded(lambda: list(ev.simple_events()))
    if st == 'exc' or len(r) != len(flat) or any(x is not y for x, y in zip(r, flat)):
        raise Violation(sub, 'simple_events', inp, f'simple_events() of {ev} is not the source-order list of alternatives')
    for e in flat:
        check_queries(e.predicate, dict(inp, text=str(e.predicate)), sub=sub, vinp=inp)


def sub_expr(inp):
    """inp: {'kind': expression|condition|predicate, 'text'}"""
    k, a = lib.outcome(inp['kind'], inp['text'])
    if k != 'ast':
        return None
    check_queries(a, inp)
    # history: the queries have been answered for this object; copies made from it by the library itself (a variable
    # replaced, the current message replaced: both are built on reshape / but()) are queried next and must answer for
    # themselves, not for their source
    from hpl.ast import HplThisMessage, HplVarReference

    names = sorted(astx.free_refs(a))[:2]
    derived = []
    for nm in names:
        derived.append((f'replace_var_reference({nm!r}, @Q9)', lambda nm=nm: a.replace_var_reference(nm, HplVarReference('@Q9'))))
        derived.append((f'replace_var_reference({nm!r}, this)', lambda nm=nm: a.replace_var_reference(nm, HplThisMessage())))
    if astx.mentions_this(a):
        derived.append(('replace_self_reference(@Q8)', lambda: a.replace_self_reference(HplVarReference('@Q8'))))
    for what, fn in derived:
        st, d = core.guarded(fn)
        if st == 'ok' and hasattr(d, '__attrs_attrs__') and d is not a:
            check_queries(d, dict(inp, text=f'{what} of {inp["text"]}'), vinp=inp)
    return a


def sub_property(inp):
    """inp: {'kind': property|specification, 'text'}"""
    k, p = lib.outcome(inp.get('kind', 'property'), inp['text'])
    if k != 'ast':
        return None
    check_iterate(p, inp, 'property')
    props = p.properties if astx.cname(p) == 'HplSpecification' else [p]
    for pr in props:
        for ev in (pr.scope.activator, pr.scope.terminator, pr.pattern.trigger, pr.pattern.behaviour):
            if ev is not None:
                check_event(ev, inp)
        evs = list(pr.events())
        want = [e for e in (pr.scope.activator, pr.pattern.behaviour, pr.pattern.trigger, pr.scope.terminator) if e is not None]
        if len(evs) != len(want) or any(x is not y for x, y in zip(evs, want)):
            raise Violation('property', 'property-events', inp, 'events() does not list activator, behaviour, trigger, terminator')
    return p


def sub_event(inp):
    """inp: {'ev': event model}: the event is built through the API (no property-level sanity check in the way)."""
    from hplverif.checks import c02

    st, ev = core.guarded(c02.build_event_api, inp['ev'], inp.get('nest', 0))
    if st == 'exc':
        return None
    check_event(ev, inp, sub='event')
    check_iterate(ev, inp, 'event')
    return ev


SUBS = {'expr': sub_expr, 'property': sub_property, 'event': sub_event}

###############################################################################
# Systematic slot table
###############################################################################

ONE = ('lit', 'int', '1')
ZERO = ('lit', 'int', '0')


def items():
    a = ('var', 'a')
    return [
        ('N', 'alias-ref', ('field', a, 'f')),
        ('N', 'this-ref', own('g')),
        ('B', 'alias-ref', ('field', a, 'b')),
        ('B', 'this-ref', own('gb')),
        ('B', 'binder', ('q', 'forall', 'a', own('ds'), binop('>', a, ZERO))),
        ('B', 'binder+this', ('q', 'exists', 'a', own('ds'), binop('=', a, own('g')))),
        ('C', 'alias-ref', ('field', a, 'xs')),
        ('C', 'this-ref', own('gxs')),
        ('A', 'alias-ref', ('field', a, 'xs')),
        ('A', 'this-ref', own('gxs')),
        ('M', 'alias', a),
        ('M', 'alias-ref', ('field', a, 'm')),
        ('M', 'this-ref', own('gm')),
    ]


def contexts():
    j = ('var', 'j')
    p = own('p')
    C = []

    def add(name, hole, res, f):
        C.append((name, hole, res, f))

    add('neg', 'N', 'N', lambda h: ('un', '-', h))
    add('add-l', 'N', 'N', lambda h: binop('+', h, ONE))
    add('mul-r', 'N', 'N', lambda h: binop('*', ONE, h))
    add('pow-r', 'N', 'N', lambda h: binop('**', ('lit', 'int', '2'), h))
    add('call-num', 'N', 'N', lambda h: ('call', 'abs', h))
    add('index-idx', 'N', 'N', lambda h: ('index', own('ys'), h))
    add('set-elem', 'N', 'N', lambda h: ('call', 'sum', ('set', (ONE, h))))
    add('range-lo', 'N', 'N', lambda h: ('call', 'len', ('range', h, ('lit', 'int', '5'), False, False)))
    add('range-hi', 'N', 'N', lambda h: ('call', 'len', ('range', ZERO, h, True, False)))
    add('rel-l', 'N', 'B', lambda h: binop('>', h, ZERO))
    add('rel-r', 'N', 'B', lambda h: binop('<=', ZERO, h))
    add('eq-l', 'N', 'B', lambda h: binop('=', h, ONE))
    add('in-l', 'N', 'B', lambda h: binop('in', h, ('set', (ONE, ('lit', 'int', '2')))))
    add('in-set-elem', 'N', 'B', lambda h: binop('in', ONE, ('set', (('lit', 'int', '2'), h))))
    add('in-range-lo', 'N', 'B', lambda h: binop('in', ONE, ('range', h, ('lit', 'int', '3'), False, True)))
    add('in-range-hi', 'N', 'B', lambda h: binop('in', ONE, ('range', ZERO, h, False, False)))
    add('not', 'B', 'B', lambda h: ('un', 'not', h))
    add('and-l', 'B', 'B', lambda h: binop('and', h, p))
    add('or-r', 'B', 'B', lambda h: binop('or', p, h))
    add('implies-l', 'B', 'B', lambda h: binop('implies', h, p))
    add('iff-r', 'B', 'B', lambda h: binop('iff', p, h))
    add('quant-body', 'B', 'B', lambda h: ('q', 'forall', 'j', own('js'), binop('or', binop('>', j, ZERO), h)))
    add('call-bool', 'B', 'B', lambda h: ('call', 'bool', h))
    add('call-int', 'B', 'N', lambda h: ('call', 'int', h))
    add('in-r', 'C', 'B', lambda h: binop('in', ONE, h))
    add('quant-domain', 'C', 'B', lambda h: ('q', 'exists', 'j', h, binop('>', j, ZERO)))
    add('call-len', 'C', 'N', lambda h: ('call', 'len', h))
    add('call-max', 'C', 'N', lambda h: ('call', 'max', h))
    add('index-array', 'A', 'N', lambda h: ('index', h, ZERO))
    add('index-array-msg', 'A', 'M', lambda h: ('index', h, ONE))
    add('field-object', 'M', 'N', lambda h: ('field', h, 'k'))
    add('field-object-arr', 'M', 'A', lambda h: ('field', h, 'arr'))
    add('field-object-msg', 'M', 'M', lambda h: ('field', h, 'sub'))
    add('call-roll', 'M', 'N', lambda h: ('call', 'roll', h))
    b = ('var', 'b')
    add('alias-index-idx', 'N', 'N', lambda h: ('index', ('field', b, 'ys'), h))
    add('alias-index-idx-msg', 'N', 'M', lambda h: ('index', ('field', b, 'ms'), h))
    add('this-index-idx-msg', 'N', 'M', lambda h: ('index', own('ms'), h))
    add('chain-arr-index', 'M', 'N', lambda h: ('index', ('field', h, 'arr'), ZERO))
    add('chain-idx-field', 'A', 'N', lambda h: ('field', ('index', h, ONE), 'k'))
    add('chain-sub-arr-index-idx', 'M', 'N', lambda h: ('index', ('field', ('field', h, 'sub'), 'arr'), ('field', h, 'k')))
    return C


def _is_ref(m):
    return m[0] in ('var', 'field', 'index')


def table_terms():
    ctxs = contexts()
    for T, iname, item in items():
        for c1 in ctxs:
            if c1[1] != T:
                continue
            if c1[1] in ('A', 'M') and not _is_ref(item):
                continue
            t1 = c1[3](item)
            yield f'{iname}/{c1[0]}', c1[2], t1, 1
            for c2 in ctxs:
                if c2[1] != c1[2] and not (c2[1] == 'C' and c1[2] == 'A'):
                    continue
                if c2[1] in ('A', 'M') and not _is_ref(t1):
                    continue
                yield f'{iname}/{c1[0]}/{c2[0]}', c2[2], c2[3](t1), 2


def finalize(T, term):
    """Boolean closure of a term (so that it can be a predicate)."""
    if T == 'B':
        return term
    if T == 'N':
        return binop('>', term, ZERO)
    if T in ('C', 'A'):
        return binop('in', ONE, term)
    if T == 'M':
        return binop('=', ('field', term, 'k'), ONE)
    raise ValueError(T)


def shadow_terms():
    """A name bound by one quantifier that also occurs free elsewhere under an enclosing quantifier."""
    y, x = ('var', 'y'), ('var', 'x')
    inner = lambda qk: ('q', qk, 'y', own('ys'), binop('=', y, x))  # noqa: E731  binds y, uses the outer x
    free_uses = {
        'operand': lambda: binop('=', y, x),
        'set-element': lambda: binop('in', x, ('set', (y, ONE))),
        'range-bound': lambda: binop('in', x, ('range', ZERO, y, False, False)),
        'call-argument': lambda: binop('>', ('call', 'abs', y), x),
        'index': lambda: binop('=', ('index', own('zs'), y), x),
        'nested-quantifier-domain': lambda: ('q', 'exists', 'k', ('set', (y, ONE)), binop('=', ('var', 'k'), x)),
    }
    for qk1 in ('forall', 'exists'):
        for qk2 in ('forall', 'exists'):
            for name, mk in free_uses.items():
                for op in ('or', 'and', 'implies'):
                    # free use to the right / left of the inner binder, inside the outer body
                    yield f'body-{name}', ('q', qk1, 'x', own('xs'), binop(op, inner(qk2), mk()))
                    yield f'body-{name}-l', ('q', qk1, 'x', own('xs'), binop(op, mk(), inner(qk2)))
            # free use in the domain of the outer quantifier
            yield 'domain-set', ('q', qk1, 'x', ('set', (y, ONE)), inner(qk2))
            yield 'domain-range', ('q', qk1, 'x', ('range', ZERO, y, False, True), inner(qk2))
            # free use outside both
            yield 'outside', binop('and', ('q', qk1, 'x', own('xs'), inner(qk2)), binop('>', y, ZERO))
            # three levels: the free use sits under two binders of other names
            yield 'deep', ('q', qk1, 'x', own('xs'), ('q', 'forall', 'w', own('ws'), binop('or', binop('and', inner(qk2), binop('=', ('var', 'w'), x)), binop('=', y, ('var', 'w')))))


def run_table(ctx):
    n = 0
    for label, term in shadow_terms():
        text = mast.render(term)
        for kind in ('expression', 'condition', 'predicate'):
            inp = {'kind': kind, 'text': text if kind != 'predicate' else mast.render(('pred', term))}
            try:
                a = sub_expr(inp)
            except Violation as vi:
                ctx.report(vi)
                a = True
            if a is None:
                ctx.count('table:shadow-rejected-by-parser')
                continue
            ctx.case((kind, inp['text']), True, 'table:shadowing', sample=inp['text'] if label == 'deep' and kind == 'condition' else None)
            # every sub-tree as well
            if a is not True:
                for node in astx.preorder(a):
                    if astx.is_expr(node) and astx.cname(node) in ('HplQuantifier', 'HplBinaryOperator'):
                        try:
                            check_queries(node, dict(inp, text=str(node)), sub='expr', vinp=inp)
                        except Violation as vi:
                            ctx.report(vi)
    for label, T, term, depth in table_terms():
        cond = finalize(T, term)
        text = mast.render(cond)
        variants = [('expression', mast.render(term)) if T in ('B', 'N') else None, ('condition', text), ('predicate', mast.render(('pred', cond)))]
        for v in variants:
            if v is None:
                continue
            inp = {'kind': v[0], 'text': v[1]}
            try:
                a = sub_expr(inp)
            except Violation as vi:
                ctx.report(vi)
                a = True
            if a is None:
                ctx.count('table:rejected-by-parser')
                continue
            n += 1
            ctx.case((v[0], v[1]), depth >= 2 or label.split('/')[1] not in ('rel-l', 'and-l', 'add-l'), 'table:' + label.split('/')[0], sample=v[1] if n % 151 == 0 else None)
        # as the predicate of an aliased event (alias e) inside a property, next to an event binding a
        if 'binder' in label:
            continue
        prop = ('prop', (), ('scope', 'after', ('ev', 'src', 'a', None), None), ('pat', 'absence', None, ('ev', 't', 'e', binop('and', cond, binop('=', ('field', ('var', 'e'), 'own'), ONE))), None))
        inp = {'kind': 'property', 'text': mast.render(prop)}
        try:
            p = sub_property(inp)
        except Violation as vi:
            ctx.report(vi)
            p = True
        if p is None:
            ctx.count('table:property-rejected-by-parser')
        else:
            ctx.case(('property', inp['text']), True, 'table:event:' + label.split('/')[0])
    ctx.exhaustive['slot-x-kind-table'] = True


###############################################################################
# Random families
###############################################################################


def gen_expr_case(ch):
    kind = ch.pick(['expression', 'condition', 'predicate'])
    chaos = ch.pick([0, 0, 8])
    depth = ch.int(1, 5)
    if kind == 'expression':
        m = gen.standalone_terms(ch, depth=depth, chaos=chaos)[0]
    else:
        m = gen.standalone_predicates(ch, depth=depth, chaos=chaos)[0]
    return {'kind': kind, 'text': mast.render(('pred', m) if kind == 'predicate' else m)}


def gen_property_case(ch):
    if ch.int(0, 4) == 0:
        m = ('spec', tuple(gen.properties(ch, depth=2)[0] for _ in range(ch.int(1, 3))))
        return {'kind': 'specification', 'text': mast.render(m)}
    m, _ = gen.properties(ch, depth=ch.int(1, 3), chaos=ch.pick([0, 0, 5]))
    return {'kind': 'property', 'text': mast.render(m)}


def _deep_ref(a):
    """Does some @reference or current-message node sit in a slot other than a top-level operand?"""
    for n in astx.preorder(a):
        if astx.cname(n) in ('HplSet', 'HplRange', 'HplFunctionCall', 'HplQuantifier', 'HplArrayAccess'):
            if any(astx.cname(x) in ('HplVarReference', 'HplThisMessage') for k in astx.kids(n) for x in astx.preorder(k)):
                return True
    return False


def shard(ctx, shard_no, nshards, n):
    def body(inp):
        a = sub_expr(inp)
        if a is None:
            ctx.count('random:rejected-by-parser')
            return
        ctx.case(inp['text'], _deep_ref(a), 'random:' + inp['kind'], sample=inp['text'])

    with ctx.timed('random-expr'):
        core.run_hypothesis(ctx, 'expr', from_tape(gen_expr_case), body, n)

    def body_p(inp):
        p = sub_property(inp)
        if p is None:
            ctx.count('random:property-rejected-by-parser')
            return
        ctx.case(inp['text'], _deep_ref(p), 'random:' + inp['kind'], sample=inp['text'])

    with ctx.timed('random-prop'):
        core.run_hypothesis(ctx, 'property', from_tape(gen_property_case), body_p, n // 2)

    from hplverif.checks import c02

    def body_e(inp):
        ev = sub_event(inp)
        text = mast.render(inp['ev'])
        if ev is None:
            ctx.count('random:event-rejected')
            return
        ctx.case(('event', text, inp.get('nest', 0)), any(n[0] == 'var' for n in mast.walk(inp['ev'])), 'random:event:' + inp['ev'][0] + (':renested' if inp.get('nest') and inp['ev'][0] == 'disj' else ''), sample=text)

    with ctx.timed('random-event'):
        core.run_hypothesis(ctx, 'event', from_tape(gen_event_case, 192), body_e, n // 2)


def alias_binder_table():
    """Aliased events whose predicate binds the alias name again: as the only use, next to a free use, below an outer
    quantifier next to a free use (in either order), with the alias in an outer domain, bound throughout, three levels."""
    from hplverif.mast import binop, own

    zero = ('lit', 'int', '0')
    gt = lambda a, b: binop('>', a, b)  # noqa: E731
    X, Y, Z = ('var', 'x'), ('var', 'y'), ('var', 'z')
    free = gt(('field', X, 'f'), zero)
    out = []
    for q1 in ('forall', 'exists'):
        for q2 in ('forall', 'exists'):
            inner = ('q', q2, 'x', own('zs'), gt(X, Y))
            out += [
                ('q', q1, 'x', own('xs'), gt(X, zero)),
                binop('and', free, ('q', q1, 'x', own('xs'), gt(X, zero))),
                binop('or', ('q', q1, 'x', own('xs'), gt(X, zero)), free),
                ('q', q1, 'y', own('ys'), binop('and', inner, gt(('field', X, 'f'), Y))),
                ('q', q1, 'y', own('ys'), binop('or', gt(('field', X, 'f'), Y), inner)),
                ('q', q1, 'y', ('field', X, 'ys'), inner),
                ('q', q1, 'x', own('zs'), ('q', q2, 'y', own('ys'), gt(X, Y))),
                ('q', q1, 'y', own('ys'), ('q', q2, 'z', own('zs'), gt(('field', X, 'f'), binop('+', Z, Y)))),
                ('q', q1, 'y', own('ys'), ('q', q2, 'z', own('zs'), binop('and', ('q', 'exists', 'x', own('xs'), gt(X, Z)), gt(('field', X, 'f'), Y)))),
            ]
    for pred in out:
        for alias in ('x', None):
            yield {'ev': ('ev', 't', alias, pred), 'nest': 0}


def gen_event_case(ch):
    from hplverif.checks import c02

    if ch.int(0, 1) == 0:
        # an aliased event whose predicate draws quantifier variables, free references and the own alias from one pool of
        # names (shadowing, re-binding below an outer quantifier, the own alias free next to a binder of the same name)
        m = c02.gen_shadow_case(ch)['m']
        ev = m[3][3]
        if ch.bool() and ev[2] is None:
            ev = ('ev', ev[1], ch.pick(c02.SHADOW_NAMES), ev[3])
        return {'ev': ev, 'nest': 0}
    return {'ev': c02.gen_event(ch, c02.TOPICS), 'nest': ch.pick([0, 1, 2, 3, 5, 11])}


def run(ctx):
    with ctx.timed('table'):
        run_table(ctx)
    with ctx.timed('alias-binder-table'):
        for inp in alias_binder_table():
            try:
                ev = sub_event(inp)
            except Violation as v:
                ctx.report(v)
                ev = True
            ctx.case(('alias-binder', mast.render(inp['ev'])), True, 'alias-binder-table:' + ('built' if ev is not None else 'rejected'))
    if ctx.tier == 'quick':
        core.run_sharded(ctx, __name__, 'shard', 1, (1500,))
    else:
        core.run_sharded(ctx, __name__, 'shard', getattr(ctx, 'shards_override', None) or 16, (20000,))


def extra_evidence(ctx):
    return {'exhaustive': False, 'exhaustive_note': 'the slot x kind table (two context levels) is enumerated completely; random families are sampled'}
