# C19 The command-line tool's exit status and JSON output are faithful.

import contextlib
import enum
import io
import json
import math
import os
import subprocess
import sys
import tempfile

from hplverif import astx, core, gen, lib, mast, relatives
from hplverif.checks import c18
from hplverif.core import Violation
from hplverif.tape import from_tape

RULE = (
    'generated property texts and specification files - valid, syntax-invalid (token deletion / garbage), type-invalid, sanity-invalid, two '
    'properties given to -p, empty and missing files; with untimed patterns (infinite bound), INF / NAN constants, huge exponents, non-ASCII '
    'strings - are passed to hpl.cli.main in-process with captured streams, with and without -p and -o json; oracle: exit status 0 iff the parser '
    'API accepts the same input, else 1 with a diagnostic and no JSON document on stdout; with -o json stdout is one strictly valid JSON document '
    '(NaN / Infinity rejected by the decoder) equal to an independent field-by-field serialisation of the AST (enums by value, non-finite numbers '
    'null); without -o stdout is empty. A sample of cases is re-run as a real `python -m hpl` process to bind the return value to the process exit '
    'status. Non-trivial: a JSON case containing a non-finite number or nested operators, or an invalid input that is not a syntax error; distinct by (argv kind, text).'
)
ASSUMPTIONS = ['files are written to a TemporaryDirectory removed per case; the real-process sample uses the same interpreter with PYTHONPATH=/repo/src']


def expected_json(v):
    """Independent serialisation of an AST: every attrs field, enums by value, non-finite floats as null."""
    if isinstance(v, enum.Enum):
        return expected_json(v.value)
    if isinstance(v, bool) or v is None:
        return v
    if isinstance(v, float):
        return None if (math.isinf(v) or math.isnan(v)) else v
    if isinstance(v, int):
        return v
    if isinstance(v, str):
        return str.__str__(v)
    if hasattr(v, '__attrs_attrs__'):
        return {a.name: expected_json(getattr(v, a.name)) for a in v.__attrs_attrs__}
    if isinstance(v, (list, tuple, set, frozenset)):
        return [expected_json(x) for x in v]
    if isinstance(v, dict):
        return {str(k): expected_json(x) for k, x in v.items()}
    raise core.HarnessError(f'cannot serialise {v!r}')


def _reject_constant(name):
    raise ValueError(f'non-standard JSON constant {name}')


def json_equal(a, b):
    if isinstance(a, float) or isinstance(b, float):
        if isinstance(a, bool) or isinstance(b, bool) or not isinstance(a, (int, float)) or not isinstance(b, (int, float)):
            return False
        return a == b
    if isinstance(a, dict):
        return isinstance(b, dict) and a.keys() == b.keys() and all(json_equal(a[k], b[k]) for k in a)
    if isinstance(a, list):
        return isinstance(b, list) and len(a) == len(b) and all(json_equal(x, y) for x, y in zip(a, b))
    return type(a) is type(b) and a == b


def run_cli(argv):
    from hpl.cli import main

    out, err = io.StringIO(), io.StringIO()
    armed = core.arm_call_limit()
    try:
        with contextlib.redirect_stdout(out), contextlib.redirect_stderr(err):
            rc = main(list(argv))
    except SystemExit as e:
        rc = ('SystemExit', e.code)
    except BaseException as e:  # noqa
        rc = ('raised', type(e).__name__)
    finally:
        core.disarm_call_limit(armed)
    return rc, out.getvalue(), err.getvalue()


def run_process(argv, ioenc=None):
    """A real `python -m hpl` process; ioenc: encoding of its standard streams (PYTHONIOENCODING), as under another locale."""
    env = dict(os.environ, PYTHONPATH=os.path.join(core.REPO_DIR, 'src'), PYTHONHASHSEED='0')
    if ioenc:
        env['PYTHONIOENCODING'] = ioenc
    p = subprocess.run([sys.executable, '-m', 'hpl'] + list(argv), capture_output=True, env=env, timeout=120)
    enc = ioenc or 'utf-8'
    return p.returncode, p.stdout.decode(enc, errors='replace'), p.stderr.decode(enc, errors='replace')


def sub_cli(inp, process=False):
    """inp: {'mode': 'property'|'file'|'missing-file', 'text', 'json': bool}"""
    mode, text, want_json = inp['mode'], inp['text'], inp['json']
    runner = (lambda argv: run_process(argv, inp.get('ioenc'))) if process else run_cli
    with tempfile.TemporaryDirectory(prefix='hplverif-c19-') as d:
        if mode == 'property':
            argv = ['-p', text]
            k, ast = lib.outcome('property', text)
        else:
            path = os.path.join(d, 'spec.hpl')
            if mode == 'file':
                if inp.get('raw_latin1'):
                    # the file holds Latin-1 bytes that are not valid UTF-8: it has no text, hence nothing that parses
                    data = text.encode('latin-1')
                    with open(path, 'wb') as f:
                        f.write(data)
                    try:
                        data.decode('utf-8')
                        k, ast = lib.outcome('specification', text)
                    except UnicodeDecodeError:
                        k, ast = 'undecodable', None
                else:
                    with open(path, 'w', encoding='utf-8') as f:
                        f.write(text)
                    k, ast = lib.outcome('specification', text)
            else:
                k, ast = 'missing', None
            argv = [path]
        if want_json:
            argv = ['-o', 'json'] + argv if inp.get('flag_first', True) else argv + ['--output', 'json']
        rc, out, err = runner(argv)
    where = f'hpl {" ".join(repr(a) if a == text else a for a in argv)[:300]}' + (f' [real process{", stdio encoding " + inp["ioenc"] if inp.get("ioenc") else ""}]' if process else '')
    tag = ('process:' if process else '') + mode
    if k == 'ast':
        if rc != 0:
            raise Violation('cli', f'{tag}:accepted-but-rc', inp, f'{where}: the parser accepts the input but the exit status is {rc!r}\nstdout: {out[:300]!r}\nstderr: {err[:300]!r}')
        if not want_json:
            if out.strip():
                raise Violation('cli', f'{tag}:stdout-without-o', inp, f'{where}: output without -o: {out[:300]!r}')
            return 'accepted'
        try:
            doc = json.loads(out, parse_constant=_reject_constant)
        except ValueError as e:
            raise Violation('cli', f'{tag}:invalid-json', inp, f'{where}: stdout is not one strictly valid JSON document ({e}): {out[:400]!r}')
        want = expected_json(ast)
        if not json_equal(doc, want):
            raise Violation('cli', f'{tag}:json-differs', inp, f'{where}: the JSON document does not mirror the AST field for field\n first difference: {_first_diff(doc, want)}')
        return 'accepted-json'
    if rc != 1:
        raise Violation('cli', f'{tag}:rejected-but-rc:{k}', inp, f'{where}: the parser rejects the input ({k}) but the exit status is {rc!r}\nstdout: {out[:300]!r}')
    if not (out.strip() or err.strip()):
        raise Violation('cli', f'{tag}:no-diagnostic:{k}', inp, f'{where}: exit status 1 without any diagnostic')
    try:
        json.loads(out)
        is_json = bool(out.strip())
    except ValueError:
        is_json = False
    if is_json:
        raise Violation('cli', f'{tag}:json-on-failure:{k}', inp, f'{where}: a JSON document was printed although the input does not parse: {out[:200]!r}')
    return 'rejected-' + k


def _first_diff(a, b, path='$'):
    if isinstance(a, dict) and isinstance(b, dict):
        for k in sorted(set(a) | set(b)):
            if k not in a or k not in b:
                return f'{path}.{k}: present only in {"stdout" if k in a else "the expected document"}'
            if not json_equal(a[k], b[k]):
                return _first_diff(a[k], b[k], f'{path}.{k}')
    if isinstance(a, list) and isinstance(b, list) and len(a) == len(b):
        for i, (x, y) in enumerate(zip(a, b)):
            if not json_equal(x, y):
                return _first_diff(x, y, f'{path}[{i}]')
    return f'{path}: stdout has {a!r}, expected {b!r}'[:400]


def sub_cli_process(inp):
    return sub_cli(inp, process=True)


SUBS = {'cli': sub_cli, 'cli_process': sub_cli_process}

SPECIAL_PREDS = (
    '{x = INF}', '{x != NAN}', '{x < 1e999}', '{x > 1e-999 and y = PI}', '{s = "ünïcödé ☃"}', '{s = "tab\\there"}', '{x in [0 to INF]}',
    '{forall i in {1, 2, INF}: @i > x}', '{x = E ** 2}', '{len(xs) > 0 and xs[0] = NAN}',
    '{x > 1' + '0' * 400 + '}', '{x in {-1e999, 7' + '1' * 330 + '}}', '{x = -INF or y = 2.5E+300}', '{x < 18446744073709551616 and y > 5e-324}',
)  # fmt: skip


ENCODING_TABLE = [
    ('property', 'globally: no t {s = "ünïcödé ☃ ω"}'),
    ('property', 'globally: some t {s = "日本"} within 1 s'),
    ('file', '# id: p1\n# title: "ω title"\n# description: "ünï"\nglobally: no a {s = "é"}\n# id: p2\nafter b: some c'),
]


def run_encoding_table(ctx):
    """Valid inputs with non-ASCII strings, -o json, as a real process whose standard streams use another encoding
    (a user under another locale): exit status 0 and one valid JSON document, whatever the terminal can represent."""
    with ctx.timed('encoding-table'):
        for mode, text in ENCODING_TABLE:
            for enc in ('ascii', 'cp1252', 'latin-1', 'utf-8'):
                inp = {'mode': mode, 'text': text, 'json': True, 'kind': 'special', 'flag_first': True, 'ioenc': enc}
                try:
                    r = sub_cli_process(inp)
                except Violation as v:
                    ctx.report(v)
                    r = 'violation'
                ctx.case(('encoding', mode, enc, text), True, f'process:encoding:{enc}:{r}')


# Characters that some notion of "blank" covers and another does not (str.strip / str.isspace / the grammar's WS /
# Unicode White_Space / invisible format characters), and the grammar's own blanks.
EDGE_CHARS = (' ', '\t', '\n', '\r', '\f', '\x0b', '\x1c', '\x1d', '\x1e', '\x1f', '\x85', '\xa0', '\u1680', '\u2000', '\u2009',
              '\u2028', '\u2029', '\u202f', '\u205f', '\u3000', '\ufeff', '\u200b', '\u00ad', '\x7f', '\x08')  # fmt: skip


def gen_case(ch):
    inp = _gen_case(ch)
    if inp.get('text') is not None and inp['mode'] != 'missing-file' and not inp.get('raw_latin1') and ch.int(0, 4) == 0:
        # one such character at the very end, at the very beginning, or in place of a space: what the command does with
        # the text before parsing it (stripping, splitting into lines) must not change whether it parses
        t = inp['text']
        c = ch.pick(EDGE_CHARS)
        if c == '\r' and inp['mode'] == 'file':
            c = '\n'  # reading a text file turns a lone carriage return into a line feed: not the same text any more
        where = ch.pick(['end', 'end', 'start', 'space'])
        spaces = [i for i, x in enumerate(t) if x == ' ']
        if where == 'end':
            t = t + c
        elif where == 'start' or not spaces:
            t = c + t
        else:
            i = ch.pick(spaces)
            t = t[:i] + c + t[i + 1 :]
        inp = dict(inp, text=t, edge=f'{where}:U+{ord(c):04X}')
    return inp


def _gen_case(ch):
    mode = ch.pick(['property'] * 6 + ['file'] * 6 + ['missing-file', 'undecodable-file'])
    if mode == 'undecodable-file':
        where = ch.pick(['title', 'string', 'description', 'topic'])
        word = ch.pick(['Caf\xe9', '\xfcber', 'na\xefve \xe0 la'])
        text = {'title': f'# title: "{word}"\nglobally: no a', 'description': f'# id: p\n# description: "{word}"\nafter a: some b',
                'string': f'globally: no a {{s = "{word}"}}', 'topic': f'globally: no {word}'}[where]
        return {'mode': 'file', 'text': text, 'json': ch.int(0, 2) > 0, 'kind': 'undecodable', 'flag_first': ch.bool(), 'raw_latin1': True}
    want_json = ch.int(0, 2) > 0
    kind = ch.pick(['valid', 'valid', 'valid', 'special', 'syntax', 'type', 'sanity', 'two-properties', 'empty'])
    if mode == 'missing-file':
        return {'mode': mode, 'text': '', 'json': want_json, 'kind': 'missing'}
    if mode == 'property':
        if kind == 'valid':
            m, _ = gen.properties(ch, depth=ch.int(0, 3), wild_time=ch.bool())
            text = mast.render(m, gen.layouts(ch))
        elif kind == 'special':
            text = f'{ch.pick(["globally", "after a", "until b {x = NAN}"])}: {ch.pick(["no", "some"])} t {ch.pick(SPECIAL_PREDS)}' + ch.pick(['', ' within 1e-320 s', ' within 1e400 ms', ' within 0 s'])
        elif kind == 'syntax':
            m, _ = gen.properties(ch, depth=1)
            toks = mast.tokens(m)
            i = ch.int(0, len(toks) - 1)
            toks = toks[:i] + ([(ch.pick(c18_garbage()), 'o')] if ch.bool() else []) + toks[i + 1 :]
            text = ' '.join(t[0] for t in toks)
        elif kind == 'type':
            text = mast.render(c18.BAD_MEMBERS['type'])
        elif kind == 'sanity':
            text = mast.render(c18.BAD_MEMBERS[ch.pick(['sanity', 'sanity2'])])
        elif kind == 'two-properties':
            a, _ = gen.properties(ch, depth=1)
            b, _ = gen.properties(ch, depth=1)
            text = mast.render(a) + ch.pick([' ', '\n']) + mast.render(b)
        else:
            text = ch.pick(['', ' ', '\n'])
        return {'mode': mode, 'text': text, 'json': want_json, 'kind': kind, 'flag_first': ch.bool()}
    # file
    if kind in ('valid', 'special', 'two-properties'):
        f = c18.gen_file(ch)
        text = f['file']
        if kind == 'special':
            text += f'\n# id: special\nglobally: no t {ch.pick(SPECIAL_PREDS)}'
    elif kind == 'empty':
        text = ch.pick(['', '\n'])
    else:
        text = c18.gen_fault(ch)['file']
    return {'mode': mode, 'text': text, 'json': want_json, 'kind': kind, 'flag_first': ch.bool()}


def c18_garbage():
    return ['=', ')', '{', 'and', '#', ':', 'within']


def _nontrivial(inp, r):
    if r == 'accepted-json':
        t = inp['text']
        return any(x in t for x in ('INF', 'NAN', '1e999', '1e400')) or 'within' not in t or any(op in t for op in (' and ', ' or ', 'forall', 'exists'))
    return r in ('rejected-type', 'rejected-sanity', 'rejected-missing', 'rejected-undecodable')


def shard(ctx, shard_no, nshards, n, n_proc):
    if shard_no == 0:
        run_encoding_table(ctx)
    def body(inp):
        r = sub_cli(inp)
        ctx.case((inp['mode'], inp['json'], inp['text']), _nontrivial(inp, r), f'{inp["mode"]}:{r}', sample={'mode': inp['mode'], 'json': inp['json'], 'text': inp['text'][:200]})
        if r == 'accepted-json' and not inp.get('raw_latin1'):
            # the next calls in this process: close relatives (other annotations, equal numbers spelled differently,
            # aliases renamed) - equal or nearly equal ASTs whose documents must still be their own
            for t in relatives.texts(inp['text']):
                rel = dict(inp, text=t)
                r2 = sub_cli(rel)
                ctx.case((inp['mode'], inp['json'], t), _nontrivial(rel, r2), f'{inp["mode"]}:relative:{r2}')

    with ctx.timed('in-process'):
        core.run_hypothesis(ctx, 'cli', from_tape(gen_case, 2560), body, n)

    def body_p(inp):
        r = sub_cli_process(inp)
        ctx.case(('process', inp['mode'], inp['json'], inp['text']), _nontrivial(inp, r), f'process:{inp["mode"]}:{r}')

    with ctx.timed('real-process'):
        core.run_hypothesis(ctx, 'cli_process', from_tape(gen_case, 2560), body_p, n_proc)


def run(ctx):
    if ctx.tier == 'quick':
        core.run_sharded(ctx, __name__, 'shard', 4, (120, 4))
    else:
        core.run_sharded(ctx, __name__, 'shard', getattr(ctx, 'shards_override', None) or 16, (1500, 30))
