# C03 Every AST the library hands out is well-typed.

from hplverif import astx, core, ev, gen, lib, mast, sem, typesig
from hplverif.checks import c13, c14
from hplverif.core import Violation
from hplverif.tape import from_tape

RULE = (
    'ASTs returned by the five parser entry points on type-directed and accepted type-chaotic generated texts, and every AST obtained from them '
    'by simplify, split_and, refactor_reference, replace_this_with_var, replace_var_with_this, negate, join and canonical_form, composed to depth 2, '
    'plus the built-in x argument-shape table and whatever the parser returns for texts with one injected type clash, are walked node by node (own walker) against an independent table of signatures: non-empty type set '
    'within the node kind\'s mask, operands inside parameter types, declared result types, equal type sets on both sides of = / !=, bound variables '
    'compatible with the element type of their domain, predicate roots exactly boolean, and a common type for all occurrences of one reference. '
    'Non-trivial: some reference ended up narrower than its kind\'s default (inference did something); distinct by the printed AST.'
)
ASSUMPTIONS = ['hplverif/typesig.py transcribes the documented signatures (unary/binary operators, 27 built-ins with overloads)']


def _narrowed(a):
    for n in astx.preorder(a):
        c = astx.cname(n)
        if c in ('HplFieldAccess', 'HplArrayAccess') and n.data_type.value != 79:
            return True
        if c == 'HplVarReference' and n.data_type.value != 71:
            return True
    return False


def check(a, what, inp, sub='typed'):
    if astx.cname(a) == 'HplProperty':
        for evn in (a.scope.activator, a.scope.terminator, a.pattern.trigger, a.pattern.behaviour):
            for se in astx.flat_events(evn):
                check(se.predicate, what + f' / predicate of {se.name}', inp, sub)
        return
    if astx.cname(a) == 'HplSpecification':
        for p in a.properties:
            check(p, what, inp, sub)
        return
    bad = typesig.check_ast(a)
    if bad:
        first = bad[0]
        sig = first.split(':')[0]
        import re

        sig = re.sub(r'typed [a-z|]+', 'typed T', sig)
        sig = re.sub(r'(argument|reference|variable) \S+', r'\1', sig)
        raise Violation(sub, f'{what.split(" ")[0]}:{sig[:70]}', inp, f'ill-typed AST from {what}: {a}\n  ' + '\n  '.join(bad[:5]))


def derived(a, inp, depth, what='parse'):
    """Apply every rewriting function to a (expression or predicate); check results; recurse to the given depth."""
    from hpl import rewrite as rw

    if depth <= 0:
        return
    is_pred = getattr(a, 'is_predicate', False)
    is_expr = getattr(a, 'is_expression', False)
    if not (is_pred or is_expr):
        return
    model = astx.to_model(a)
    results = []

    def run(name, fn, *args):
        st, r = core.guarded(fn, *args)
        if st == 'ok':
            results.append((name, r))

    if ev.closed_ok(model):
        run('simplify', rw.simplify, a)
    boolean = is_pred or a.data_type.value == 1
    if boolean:
        run('split_and', rw.split_and, a)
        names = sorted({n.token[1:] for n in astx.preorder(a) if astx.cname(n) == 'HplVarReference'} - c14._bound_names(a))[:2] + ['Zz']
        for alias in names:
            run(f'refactor_reference[{alias}]', rw.refactor_reference, a, alias)
    run('replace_this_with_var', rw.replace_this_with_var, a, c13.V)
    for alias in sorted(c14._message_aliases(a) - c14._bound_names(a))[:2]:
        run(f'replace_var_with_this[{alias}]', rw.replace_var_with_this, a, alias)
    if is_pred:
        run('negate', a.negate)
        run('join', a.join, a.negate() if astx.cname(a) == 'HplPredicateExpression' else a)
    for name, r in results:
        items = r if isinstance(r, (list, tuple)) else [r]
        for x in items:
            if hasattr(x, '__attrs_attrs__'):
                check(x, f'{name} after {what}', inp)
                if x is not a:
                    derived(x, inp, depth - 1, f'{name} after {what}')


def sub_typed(inp):
    """inp: {'kind', 'text'}"""
    k, a = lib.outcome(inp['kind'], inp['text'])
    if k != 'ast':
        return None
    check(a, 'parse', inp)
    if astx.cname(a) == 'HplProperty':
        from hpl.rewrite import canonical_form

        st, members = core.guarded(canonical_form, a)
        if st == 'ok':
            for q in members:
                check(q, 'canonical_form after parse', inp)
        for evn in (a.scope.activator, a.scope.terminator, a.pattern.trigger, a.pattern.behaviour):
            for se in astx.flat_events(evn):
                derived(se.predicate, inp, 2)
    elif astx.cname(a) != 'HplSpecification':
        derived(a, inp, 2)
    return a


def sub_alike(inp):
    """inp: {'first': text, 'narrow': text, 'use': text}: two trees that print alike but store different types.

    `first` (a valid predicate, e.g. `x = y and x = "s"`) is parsed and validated; then `narrow` (e.g. `x + 0 = y`) is
    simplified - the neutral operation disappears, the result prints like the first conjunct of `first` but its references
    are numbers - and joined with `use` (`x = "s"`). The library may refuse the join (TypeError: the property does not judge
    that here); whatever it returns must be well-typed, in particular all occurrences of one reference share a type."""
    from hpl.rewrite import simplify

    k, first = lib.outcome('predicate', inp['first'])
    k2, narrow = lib.outcome('predicate', inp['narrow'])
    k3, use = lib.outcome('predicate', inp['use'])
    if 'ast' not in (k2,) or k3 != 'ast':
        return 'rejected-by-parser'
    if k == 'ast':
        check(first, 'parse', inp, 'alike')
    st, slim = core.guarded(simplify, narrow)
    if st == 'exc' or not getattr(slim, 'is_predicate', False):
        return 'not-simplified'
    check(slim, 'simplify', inp, 'alike')
    n = 0
    for what, fn in (('simplify(narrow).join(use)', lambda: slim.join(use)), ('use.join(simplify(narrow))', lambda: use.join(slim)),
                     ('narrow.join(use)', lambda: narrow.join(use))):
        st, j = core.guarded(fn)
        if st == 'ok' and hasattr(j, '__attrs_attrs__'):
            check(j, what, inp, 'alike')
            n += 1
    return 'joined' if n else 'join-refused'


SUBS = {'typed': sub_typed, 'alike': sub_alike}


def alike_table():
    """Neutral operations that simplify removes narrow their operand on the way (x + 0 makes x a number, `not not x` a
    boolean); the simplified tree then prints like the plain atom. Every such wrapper x every atom form x every later
    use of the same reference at another type."""
    x, y = mast.own('x'), mast.own('y')
    one, zero = ('lit', 'int', '1'), ('lit', 'int', '0')
    b = mast.binop
    num_wrap = [lambda e: b('+', e, zero), lambda e: b('*', e, one), lambda e: b('-', e, zero), lambda e: b('+', zero, e), lambda e: b('/', e, one)]
    bool_wrap = [lambda e: ('un', 'not', ('un', 'not', e)), lambda e: b('and', e, mast.TRUE), lambda e: b('or', e, mast.FALSE), lambda e: b('and', mast.TRUE, e)]
    atoms = [lambda w: b('=', w, y), lambda w: b('!=', w, y), lambda w: b('=', y, w), lambda w: b('in', w, ('set', (y, x))) if False else b('in', w, ('set', (y,)))]
    uses = {'S': b('=', x, ('lit', 'str', '"s"')), 'B': b('or', x, mast.FALSE), 'N': b('>', b('+', x, one), zero)}
    for T, wraps in (('N', num_wrap), ('B', bool_wrap)):
        for wi, w in enumerate(wraps):
            for ai, atom in enumerate(atoms):
                for U, use in uses.items():
                    if U == T:
                        continue
                    first = b('and', atom(x), use)
                    yield {'first': mast.render(('pred', first)), 'narrow': mast.render(('pred', atom(w(x)))), 'use': mast.render(('pred', use)),
                           'label': f'{T}{wi}:{ai}:{U}'}


def gen_case(ch):
    kind = ch.pick(['property', 'predicate', 'condition', 'expression', 'expression', 'specification'])
    chaos = ch.pick([0, 0, 0, 8, 15])
    if kind == 'property':
        m, _ = gen.properties(ch, depth=ch.int(1, 3), chaos=chaos)
    elif kind == 'specification':
        m = ('spec', tuple(gen.properties(ch, depth=2)[0] for _ in range(ch.int(1, 2))))
    elif kind == 'expression':
        m = gen.standalone_terms(ch, depth=ch.int(1, 5), chaos=chaos)[0]
    else:
        m = gen.standalone_predicates(ch, depth=ch.int(1, 5), chaos=chaos)[0]
    return {'kind': kind, 'text': mast.render(('pred', m) if kind == 'predicate' else m)}


def gen_clash_case(ch):
    """Texts with one injected definite type clash (C05's generator): normally rejected, so nothing is
    returned; whatever the parser does return for them must still satisfy the invariant."""
    from hplverif.checks import c05

    c = c05.gen_case(ch)
    return {'kind': c['kind'], 'text': c['text'], 'family': 'clash'}


def shard(ctx, shard_no, nshards, n):
    def body_clash(inp):
        a = sub_typed(inp)
        if a is None:
            ctx.count('clash-texts:rejected-by-parser')
            return
        ctx.case(str(a), True, 'clash-text-accepted:' + inp['kind'], sample=inp['text'])

    with ctx.timed('clash-texts'):
        core.run_hypothesis(ctx, 'clash', from_tape(gen_clash_case), body_clash, n // 2)

    def body(inp):
        a = sub_typed(inp)
        if a is None:
            ctx.count('rejected-by-parser')
            return
        ctx.case(str(a), _narrowed(a), inp['kind'], sample=inp['text'])

    with ctx.timed('random'):
        core.run_hypothesis(ctx, 'random', from_tape(gen_case), body, n)


def run_table(ctx):
    for family in (c14.table_cases(), c14.literal_left_cases()):
        for label, m in family:
            text = mast.render(m)
            for kind in ('expression', 'condition'):
                inp = {'kind': kind, 'text': text}
                try:
                    a = sub_typed(inp)
                except Violation as v:
                    ctx.report(v)
                    a = True
                if a is None:
                    ctx.count('table:rejected-by-parser')
                    continue
                ctx.case((kind, text), True, 'table:' + label.split(':')[0])
    ctx.exhaustive['builtin-x-argument-shape-table'] = True
    # every kind of reference (own field, alias field, indexed, nested field, bare quantified variable) at every typed
    # position of the signature table: the parser must hand back a tree in which that operand sits inside the parameter type
    from hplverif.checks import c05

    refs = list(c05.TABLE_REFS) + [('quantified-variable', ('var', 'i'))]
    for rname, r in refs:
        for slot, mk, cond in c05.table_contexts(r):
            if rname == 'quantified-variable':
                if not (mk & typesig.PRIM) or any(n[0] == 'q' for n in mast.walk(cond)):
                    continue
                cond = ('q', 'forall', 'i', ('range', ('lit', 'int', '0'), mast.own('n9'), False, False) if mk & typesig.N else mast.own('v9'), cond)
            inp = {'kind': 'condition', 'text': mast.render(cond)}
            try:
                a = sub_typed(inp)
            except Violation as v:
                ctx.report(v)
                a = True
            if a is None:
                ctx.count('position-table:rejected-by-parser')
                continue
            ctx.case(('position', inp['text']), True, 'position-table:' + rname)
    for inp in alike_table():
        try:
            r = sub_alike(inp)
        except Violation as v:
            ctx.report(v)
            r = 'violation'
        ctx.case(('alike', inp['first'], inp['narrow']), True, 'print-alike-table:' + r)


def run(ctx):
    with ctx.timed('table'):
        run_table(ctx)
    if ctx.tier == 'quick':
        core.run_sharded(ctx, __name__, 'shard', 4, (450,))
    else:
        core.run_sharded(ctx, __name__, 'shard', getattr(ctx, 'shards_override', None) or 16, (16000,))


def extra_evidence(ctx):
    return {'exhaustive': False}
