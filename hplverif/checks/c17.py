# C17 Schema checking of references is exact.

import copy

from hplverif import astx, core, gen, lib, mast, typesig, typetok
from hplverif.checks import c04
from hplverif.core import Violation
from hplverif.tape import Chooser, from_tape

RULE = (
    'type-directed properties with their schemas (nested messages, fixed/variable arrays, arrays of messages, constants): the valid pair must pass '
    'type_check_references; then exactly one fault is injected into the schema at a place the property actually uses - a used field removed '
    '(unknown field at any depth), a used message/array replaced by a primitive (field/array confusion), a used leaf re-declared at a disjoint type, '
    'a fixed array shortened below a literal index - on own-message and alias paths and at any position of the predicate (operands, index '
    'expressions, range bounds, set elements, call arguments, quantifier domains and bodies); the check must then raise. Token side: exhaustive '
    'bounds of the eight integer tokens, generated RangedType / ArrayType / EnumeratedType / TypeToken declarations (valid and ill-formed), random '
    'nested MessageTypes for leaf_fields / get_type_of / contains_name against the declared tree. Non-trivial: the faulty (or longest) path has '
    'depth >= 2 or sits below another node; distinct by (text, fault).'
)
ASSUMPTIONS = ['a fault is only injected where the own resolver (hplverif/typesig.py) shows that the property uses the mutated declaration']

###############################################################################
# Uses of schema declarations by a property
###############################################################################


def uses(prop_ast, topics, alias_topic):
    """Schema declarations a parsed property uses, with the type set inferred at each use.

    Works on the library AST (own walker), because whether a re-declaration is a fault depends on
    the inferred type set of the reference: list of {root, path, ftype, use, mask, nested}.
    """
    out = []
    for evn in (prop_ast.scope.activator, prop_ast.scope.terminator, prop_ast.pattern.trigger, prop_ast.pattern.behaviour):
        for se in astx.flat_events(evn):
            if astx.cname(se.predicate) == 'HplPredicateExpression':
                _uses_in(se.predicate.expression, se.name, topics, alias_topic, out)
    return out


def _uses_in(expr, topic, topics, alias_topic, out):
    def walk_ref(n, nested):
        """(root topic, path tuple, ftype) of reference node n; records its uses."""
        c = astx.cname(n)
        if c == 'HplThisMessage':
            return topic, (), ('msg', topics[topic])
        if c == 'HplVarReference':
            name = n.token[1:]
            if name in alias_topic:
                return alias_topic[name], (), ('msg', topics[alias_topic[name]])
            return None
        if c == 'HplFieldAccess':
            b = walk_ref(n.message, nested)
            if b is None:
                return None
            root, path, ft = b
            if ft[0] != 'msg' or n.field not in ft[1]['fields']:
                return None  # constants are not mutated
            nft = ft[1]['fields'][n.field]
            out.append({'root': root, 'path': path + (n.field,), 'ftype': nft, 'use': 'field', 'mask': n.data_type.value, 'nested': nested})
            return root, path + (n.field,), nft
        if c == 'HplArrayAccess':
            b = walk_ref(n.array, nested)
            rec(n.index, True)
            if b is None:
                return None
            root, path, ft = b
            if ft[0] != 'arr':
                return None
            i = n.index
            if astx.cname(i) == 'HplLiteral' and isinstance(i.value, int) and not isinstance(i.value, bool) and ft[2] >= 0:
                out.append({'root': root, 'path': path, 'ftype': ft, 'use': 'literal-index', 'index': i.value, 'mask': 8, 'nested': nested})
            out.append({'root': root, 'path': path + ('[]',), 'ftype': ft[1], 'use': 'element', 'mask': n.data_type.value, 'nested': nested})
            return root, path + ('[]',), ft[1]
        return None

    def rec(n, nested):
        c = astx.cname(n)
        if c in ('HplFieldAccess', 'HplArrayAccess'):
            walk_ref(n, nested)
            return
        for k in astx.kids(n):
            rec(k, nested or c in ('HplSet', 'HplRange', 'HplFunctionCall', 'HplQuantifier'))

    rec(expr, False)


###############################################################################
# Fault injection into schemas
###############################################################################


def _get(schema, path):
    sc = schema
    ft = None
    for i, name in enumerate(path):
        if name == '[]':
            ft = ft[1]
        else:
            ft = sc['fields'][name]
        if ft[0] == 'msg':
            sc = ft[1]
        elif ft[0] == 'arr' and ft[1][0] == 'msg':
            sc = ft[1][1]
    return ft


def _set(schema, path, new_ft):
    """Return a deep copy of schema with the declaration at path replaced (None removes the field)."""
    sc = copy.deepcopy(schema)
    cur = sc
    names = [p for p in path]
    # walk to the parent message of the last field name
    last_field = max(i for i, p in enumerate(names) if p != '[]')
    node = cur
    for i, name in enumerate(names[:last_field]):
        if name == '[]':
            continue
        ft = node['fields'][name]
        if ft[0] == 'msg':
            node = ft[1]
        elif ft[0] == 'arr' and ft[1][0] == 'msg':
            node = ft[1][1]
    fname = names[last_field]
    if new_ft is None:
        del node['fields'][fname]
    else:
        tail = names[last_field + 1 :]
        old = node['fields'][fname]
        if tail:  # the path ends in '[]': the element type is replaced
            node['fields'][fname] = ('arr', new_ft, old[2])
        else:
            node['fields'][fname] = new_ft
    return sc


def _outside(mask):
    """A primitive declaration that the inferred type set excludes (None when it admits all three)."""
    if not mask & typesig.S:
        return ('str',)
    if not mask & typesig.N:
        return ('num', 'int32')
    if not mask & typesig.B:
        return ('bool',)
    return None


def make_fault(ch, use):
    """(kind, new declaration or None, expected substring) for one use of a declaration."""
    ft = use['ftype']
    if use['use'] == 'literal-index':
        return ('index-out-of-range', ('arr', ft[1], use['index']), None)
    options = []
    if use['use'] == 'field':
        options.append('unknown-field')
    out = _outside(use['mask'])
    if out is not None:
        options.append('confusion' if ft[0] in ('msg', 'arr') else 'type-mismatch')
    if not options:
        return None
    kind = ch.pick(options)
    if kind == 'unknown-field':
        return (kind, None, use['path'][-1])
    return (kind, out, None)


def type_check(text, topics, alias_topic):
    k, p = lib.outcome('property', text)
    if k != 'ast':
        return None, None
    tokens = {t: typetok.message(sc, 'T' + str(i)) for i, (t, sc) in enumerate(sorted(topics.items()))}
    types = dict(tokens)
    for a, t in alias_topic.items():
        types[a] = tokens[t]
    return p, core.guarded(p.type_check_references, types)


def sub_fault(inp):
    """inp: {'m', 'topics', 'aliases', 'fault': {'root','path','new','kind','expect'}}"""
    m = inp['m']
    text = mast.render(m)
    topics = inp['topics']
    p, res = type_check(text, topics, inp['aliases'])
    if p is None:
        return 'rejected-by-parser'
    if res[0] == 'exc':
        raise Violation('fault', f'valid-rejected:{core.exc_sig(res[1])}', dict(inp, text=text), f'valid property/schema pair rejected: {type(res[1]).__name__}: {str(res[1])[:300]}\n{text!r}')
    f = inp.get('fault')
    if f is None:
        return 'valid'
    mutated = dict(topics)
    path = tuple(f['path'])
    mutated[f['root']] = _set(topics[f['root']], path, core.detuple(f['new']) if f['new'] is not None else None)
    _, res2 = type_check(text, mutated, inp['aliases'])
    if res2[0] != 'exc':
        raise Violation(
            'fault', f'fault-accepted:{f["kind"]}:{"nested" if f.get("nested") else "top"}', dict(inp, text=text),
            f'type_check_references accepts a property whose schema has the fault {f["kind"]} at {f["root"]}:{".".join(map(str, path))} (new declaration: {f["new"]})\n{text!r}',
        )  # fmt: skip
    if f.get('expect') and f['expect'] not in str(res2[1]):
        raise Violation('fault', f'error-does-not-name:{f["kind"]}', dict(inp, text=text), f'the error for the unknown field {f["expect"]!r} does not identify it: {type(res2[1]).__name__}: {str(res2[1])[:300]}')
    return f['kind']


###############################################################################
# Token side
###############################################################################


def sub_int_tokens(_inp=None):
    import hpl.types as T

    for bits in (8, 16, 32, 64):
        for signed in (False, True):
            name = ('int' if signed else 'uint') + str(bits)
            tok = getattr(T, name.upper())
            tok2 = getattr(T.RangedType, name)()
            lo = -(2 ** (bits - 1)) if signed else 0
            hi = 2 ** (bits - 1) - 1 if signed else 2**bits - 1
            for t in (tok, tok2):
                if (t.min_value, t.max_value) != (lo, hi) or not t.is_number or t.type.value != typesig.N:
                    raise Violation('int_tokens', f'bounds:{name}', None, f'{name}: [{t.min_value}, {t.max_value}] type {t.type}, expected [{lo}, {hi}] number')
    if not (T.BOOLEANS.is_bool and tuple(T.BOOLEANS.values) == (False, True)):
        raise Violation('int_tokens', 'booleans', None, f'BOOLEANS = {T.BOOLEANS!r}')
    if not T.STRINGS.is_string:
        raise Violation('int_tokens', 'strings', None, f'STRINGS = {T.STRINGS!r}')
    for t in (T.FLOAT32, T.FLOAT64):
        if not (t.is_number and t.min_value == -t.max_value and t.max_value > 1e38):
            raise Violation('int_tokens', 'floats', None, f'{t!r}')


def sub_token_ctor(inp):
    """inp: {'ctor': 'ranged'|'array'|'enum'|'token', ...}: ill-formed declarations are rejected, well-formed accepted."""
    import hpl.types as T

    c = inp['ctor']
    if c == 'ranged':
        lo, hi = inp['min'], inp['max']
        st, r = core.guarded(T.RangedType, 'r', T.DataType.NUMBER, lo, hi)
        ok = hi >= lo
        if (st == 'ok') != ok:
            raise Violation('token_ctor', f'ranged:{"rejected" if ok else "accepted"}', inp, f'RangedType(min={lo}, max={hi}) -> {st}: {r!r}')
        if st == 'ok' and (r.min_value, r.max_value) != (lo, hi):
            raise Violation('token_ctor', 'ranged:fields', inp, f'RangedType(min={lo}, max={hi}) stores [{r.min_value}, {r.max_value}]')
    elif c == 'array':
        n = inp['length']
        st, r = core.guarded(T.ArrayType, 'a', T.UINT8, n)
        ok = n >= -1
        if (st == 'ok') != ok:
            raise Violation('token_ctor', f'array:{"rejected" if ok else "accepted"}', inp, f'ArrayType(length={n}) -> {st}: {r!r}')
        if st == 'ok':
            if r.is_fixed_length != (n >= 0) or not r.is_array:
                raise Violation('token_ctor', 'array:fixed', inp, f'ArrayType(length={n}).is_fixed_length = {r.is_fixed_length}')
            for i in inp.get('indices', ()):
                want = n < 0 or (0 <= i < n) if i >= 0 else (n < 0)
                if i >= 0 and r.contains_index(i) != want:
                    raise Violation('token_ctor', 'array:contains_index', inp, f'ArrayType(length={n}).contains_index({i}) = {r.contains_index(i)}, expected {want}')
    elif c == 'enum':
        base = {'bool': T.DataType.BOOL, 'num': T.DataType.NUMBER, 'str': T.DataType.STRING}[inp['base']]
        vals = inp['values']
        st, r = core.guarded(T.EnumeratedType, 'e', base, vals)
        kinds = {'bool': lambda v: isinstance(v, bool), 'num': lambda v: isinstance(v, (int, float)), 'str': lambda v: isinstance(v, str)}
        ok = all(kinds[inp['base']](v) for v in vals)
        if (st == 'ok') != ok:
            raise Violation('token_ctor', f'enum:{"rejected" if ok else "accepted"}:{inp["base"]}', inp, f'EnumeratedType({inp["base"]}, {vals}) -> {st}: {r!r}')
        if st == 'ok' and tuple(r.values) != tuple(vals):
            raise Violation('token_ctor', 'enum:values', inp, f'EnumeratedType stores {r.values}')
    elif c == 'token':
        v = inp['type']
        st, r = core.guarded(T.TypeToken, 't', T.DataType(v))
        ok = v in (1, 2, 4, 8, 32, 64)  # the base types a token may carry (RANGE is not a declarable type)
        if (st == 'ok') != ok:
            raise Violation('token_ctor', f'token:{"rejected" if ok else "accepted"}', inp, f'TypeToken(type=DataType({v})) -> {st}: {r!r}')
        if st == 'ok':
            flags = (r.is_bool, r.is_number, r.is_string, r.is_array, r.is_range, r.is_set, r.is_message)
            want = tuple(bool(v & (1 << i)) for i in range(7))
            if flags != want:
                raise Violation('token_ctor', 'token:flags', inp, f'TypeToken(DataType({v})) flags {flags}, expected {want}')
    return c


def sub_navigation(inp):
    """inp: {'schema'}: leaf_fields / get_type_of / contains_name agree with the declared tree."""
    sc = inp['schema']
    tok = typetok.message(sc, 'Root')

    def leaves(s, prefix=''):
        out = {}
        for name, ft in s['fields'].items():
            if ft[0] == 'msg':
                out.update(leaves(ft[1], prefix + name + '.'))
            else:
                out[prefix + name] = ft
        return out

    want = leaves(sc)
    st, got = core.guarded(tok.leaf_fields)
    if st == 'exc':
        raise Violation('navigation', f'leaf_fields:{core.exc_sig(got)}', inp, f'leaf_fields() raised {type(got).__name__}: {got}')
    if set(got) != set(want):
        raise Violation('navigation', 'leaf_fields:names', inp, f'leaf_fields() = {sorted(got)}, declared leaves {sorted(want)}')
    for name, ft in want.items():
        if got[name].type.value != typesig.ftype_mask(ft):
            raise Violation('navigation', 'leaf_fields:types', inp, f'leaf_fields()[{name!r}] = {got[name]}, declared {ft}')
    for name, ft in sc['fields'].items():
        if not tok.contains_name(name) or tok.get_type_of(name).type.value != typesig.ftype_mask(ft):
            raise Violation('navigation', 'get_type_of', inp, f'field {name}: contains_name={tok.contains_name(name)}, get_type_of={tok.get_type_of(name)}')
    for name, (ft, _v) in sc['consts'].items():
        if name in sc['fields']:
            continue  # the name is in the declared field tree: the lookup above has said what it must mean
        if not tok.contains_name(name) or tok.get_type_of(name).type.value != typesig.ftype_mask(ft):
            raise Violation('navigation', 'constants', inp, f'constant {name}: contains_name={tok.contains_name(name)}')
    for absent in ('zz_absent', ''):
        if tok.contains_name(absent):
            raise Violation('navigation', 'contains_name', inp, f'contains_name({absent!r}) is True')
    return len(want)


SUBS = {'fault': sub_fault, 'int_tokens': sub_int_tokens, 'token_ctor': sub_token_ctor, 'navigation': sub_navigation}

###############################################################################
# Generators
###############################################################################


def gen_fault_case(ch):
    base = c04.gen_property(ch)
    k, p = lib.outcome('property', mast.render(base['m']))
    if k != 'ast':
        return dict(base, fault=None)
    us = uses(p, base['topics'], base['aliases'])
    if not us:
        return dict(base, fault=None)
    # prefer uses below other nodes / deep paths, which are the interesting ones
    deep = [u for u in us if u['nested'] or len(u['path']) >= 2]
    for _ in range(4):
        u = ch.pick(deep) if deep and ch.int(0, 3) > 0 else ch.pick(us)
        fault = make_fault(ch, u)
        if fault is not None:
            kind, new, expect = fault
            return dict(base, fault={'root': u['root'], 'path': list(u['path']), 'new': new, 'kind': kind, 'expect': expect, 'nested': bool(u['nested']), 'depth': len(u['path'])})
    return dict(base, fault=None)


def gen_token_case(ch):
    c = ch.pick(['ranged', 'array', 'enum', 'token'])
    if c == 'ranged':
        lo = ch.pick([-5, 0, 1, 10, -1.5, 2.5])
        hi = ch.pick([-6, -5, 0, 1, 9, 10, 11, 2.4, 2.5])
        return {'ctor': c, 'min': lo, 'max': hi}
    if c == 'array':
        return {'ctor': c, 'length': ch.int(-4, 6), 'indices': [ch.int(0, 7) for _ in range(3)]}
    if c == 'enum':
        base = ch.pick(['bool', 'num', 'str'])
        pool = [True, False, 0, 1, 2.5, 'a', 'b']
        good = {'bool': [True, False], 'num': [0, 1, 2.5], 'str': ['a', 'b']}[base]
        vals = [ch.pick(good) for _ in range(ch.int(0, 3))]
        if ch.int(0, 2) == 0:
            bad = [v for v in pool if not any(v is g for g in good) and v not in good]
            if base == 'bool':
                bad += [0, 1, 0.0, 1.0]  # equal to False / True, and hashing alike, but numbers
            vals.insert(ch.int(0, len(vals)), ch.pick(bad))
        return {'ctor': c, 'base': base, 'values': vals}
    return {'ctor': c, 'type': ch.int(0, 127)}


def shard(ctx, shard_no, nshards, n):
    def body(inp):
        r = sub_fault(inp)
        f = inp.get('fault')
        text = mast.render(inp['m'])
        nt = bool(f and (f.get('nested') or f.get('depth', 0) >= 2))
        ctx.case((text, repr(f)), nt, 'fault:' + r, sample={'text': text, 'fault': f} if nt else None)

    with ctx.timed('faults'):
        core.run_hypothesis(ctx, 'fault', from_tape(gen_fault_case), body, n)

    def body_t(inp):
        r = sub_token_ctor(inp)
        ctx.case(repr(inp), True, 'token:' + r)

    with ctx.timed('tokens'):
        core.run_hypothesis(ctx, 'tokens', from_tape(gen_token_case, 32), body_t, n // 2)

    def body_n(inp):
        k = sub_navigation(inp)
        ctx.case(repr(inp), any(ft[0] == 'msg' for ft in inp['schema']['fields'].values()), 'navigation', sample=None)

    with ctx.timed('navigation'):
        core.run_hypothesis(ctx, 'navigation', from_tape(gen_navigation_case, 256), body_n, n // 3)


def gen_navigation_case(ch):
    sc = gen.schemas(ch, depth=3)
    if sc['fields'] and ch.int(0, 3) == 0:
        # a constant named like a field of another kind (MessageType takes it): the field tree says what the name means
        name = ch.pick(sorted(sc['fields']))
        kind = sc['fields'][name][0]
        alt = [c for c in ((('num', 'uint8'), 1), (('str',), '"a"'), (('bool',), True)) if c[0][0] != kind]
        sc = {'fields': sc['fields'], 'consts': dict(sc['consts'], **{name: ch.pick(alt)})}
    return {'schema': sc}


def sub_nested_array(inp):
    """inp: {'l1', 'l2', 'i', 'j', 'form'}: an array of arrays (declared lengths l1 outside, l2 inside; -1 = variable) and
    literal indices i (outer) and j (inner): the check raises iff a literal index is not below a fixed length."""
    l1, l2, i, j, form = inp['l1'], inp['l2'], inp['i'], inp['j'], inp['form']
    schema = {'fields': {'rows': ('arr', ('arr', ('num', 'int32'), l2), l1), 'x': ('num', 'int32')}, 'consts': {}}
    if form == 'element':
        text = f'globally: no t {{rows[{i}][{j}] > x}}'
    elif form == 'domain':
        text = f'globally: no t {{forall k in rows[{i}]: @k > x}}'
        j = None
    elif form == 'in-index':
        text = f'globally: no t {{rows[rows[{i}][{j}]][0] > x}}'
    else:
        text = f'globally: a as A {{x > 0}} causes t {{x < @A.rows[{i}][{j}]}}'
    topics = {'t': schema, 'a': schema}
    p, res = type_check(text, topics, {'A': 'a'} if form == 'alias' else {})
    if p is None:
        return 'rejected-by-parser'
    bad = (l1 >= 0 and i >= l1) or (j is not None and l2 >= 0 and j >= l2)
    if form == 'in-index' and l2 >= 0 and 0 >= l2:
        bad = True
    if bad and res[0] != 'exc':
        raise Violation('nested_array', f'out-of-range-accepted:{form}', inp, f'{text!r} is accepted although rows is declared {"T[%s][%s]" % (l2 if l2 >= 0 else "", l1 if l1 >= 0 else "")} (inner length {l2}, outer length {l1})')
    if not bad and res[0] == 'exc':
        raise Violation('nested_array', f'in-range-rejected:{form}:{core.exc_sig(res[1])}', inp, f'{text!r} is rejected ({type(res[1]).__name__}: {str(res[1])[:200]}) although every literal index is within the declared lengths (inner {l2}, outer {l1})')
    return 'out-of-range' if bad else 'in-range'


SUBS['nested_array'] = sub_nested_array


def run_nested_arrays(ctx):
    with ctx.timed('nested-arrays'):
        for l1 in (-1, 1, 2, 3):
            for l2 in (-1, 1, 2):
                for i in (0, 1, 2, 5):
                    for j in (0, 1, 2):
                        for form in ('element', 'domain', 'in-index', 'alias'):
                            inp = {'l1': l1, 'l2': l2, 'i': i, 'j': j, 'form': form}
                            try:
                                r = sub_nested_array(inp)
                            except Violation as v:
                                ctx.report(v)
                                r = 'violation'
                            ctx.case(('nested-array', l1, l2, i, j, form), True, 'nested-array:' + r)
    ctx.exhaustive['nested-array-table'] = True


def run(ctx):
    run_nested_arrays(ctx)
    try:
        sub_int_tokens()
    except Violation as v:
        ctx.report(v)
    ctx.case('int-tokens', True, 'int-tokens')
    ctx.exhaustive['integer-token-bounds'] = True
    # every TypeToken type value
    for v in range(128):
        try:
            sub_token_ctor({'ctor': 'token', 'type': v})
        except Violation as vi:
            ctx.report(vi)
        ctx.case(('token', v), True, 'token:all-type-sets')
    if ctx.tier == 'quick':
        core.run_sharded(ctx, __name__, 'shard', 1, (2500,))
    else:
        core.run_sharded(ctx, __name__, 'shard', getattr(ctx, 'shards_override', None) or 16, (25000,))


def extra_evidence(ctx):
    return {'exhaustive': False}
