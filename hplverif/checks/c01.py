# C01 Parsing builds exactly the tree the grammar assigns to the text.

import itertools

from hplverif.tape import from_tape

from hplverif import astx, core, gen, lib, mast, match
from hplverif.core import Violation
from hplverif.mast import binop, own

RULE = (
    'model trees (random type-directed properties, predicates, expressions, specifications; exhaustive '
    'operator pairs/triples) are rendered to text under generated layouts (whitespace, line breaks, minimal / '
    'full / redundant parentheses) and parsed through all five entry points; the AST must match the model tree '
    '(matcher oracle) and two layouts of one tree must give equal ASTs. Reject side: token-level mutations of '
    'valid texts, decided by an Earley recogniser (all tokenisations) built from the .lark sources; word-fusion '
    'mutations against a longest-match oracle. Differential: parser built from the .lark files vs hpl.grammar. '
    'Non-trivial: the text has operators of >= 2 precedence levels, or a disjunction, alias, time bound, '
    'quantifier or keyword-prefixed name; a mutation is non-trivial when it is definitely ill-formed; distinct by text.'
)
ASSUMPTIONS = [
    'the packaged .lark files are the documented grammar; Lark\'s Earley engine is a correct recogniser for them',
    'the precedence table in hplverif/mast.py is a correct transcription of the rule nesting in predicates.lark',
]

KW_PREFIXED = set(gen.KW_FIELDS) | {'assert', 'Within', 'nox', 'orig', 'asA', 'inx', 'tox', 'e1x'} | {
    t for t in gen.TOPICS if any(t.startswith(k) for k in ('no', 'some', 'until', 'and', 'as', 'within', 'causes', 'globally', 'or', 'after'))
}


def _levels(m):
    lv = set()
    for n in mast.walk(m):
        if n[0] == 'bin':
            lv.add(mast.BIN_LEVEL[n[1]])
        elif n[0] == 'un':
            lv.add(4 if n[1] == 'not' else 8)
    return lv


def nontrivial(m, text):
    if len(_levels(m)) >= 2:
        return True
    for n in mast.walk(m):
        if n[0] in ('disj', 'q'):
            return True
        if n[0] == 'ev' and n[2] is not None:
            return True
        if n[0] == 'pat' and n[4] is not None:
            return True
        if n[0] == 'field' and n[2] in KW_PREFIXED:
            return True
        if n[0] == 'ev' and n[1] in KW_PREFIXED:
            return True
    return False


def klass(m):
    ks = {n[0] for n in mast.walk(m)}
    out = []
    for k, name in (('disj', 'disjunction'), ('q', 'quantifier')):
        if k in ks:
            out.append(name)
    if ks & {'call', 'range', 'set', 'index'}:
        out.append('values')
    return '+'.join(out) or 'plain'


###############################################################################
# Sub-checks
###############################################################################


def _model_for(kind, m):
    return m


def _match(kind, m, a):
    if kind == 'condition':
        d = []
        match.match_predicate(m, a, 'predicate', d)
        return d
    if kind == 'predicate':
        return match.match(('pred', m), a)
    return match.match(m, a)


def _render(kind, m, layout):
    if kind == 'predicate':
        return mast.render(('pred', m), layout)
    return mast.render(m, layout)


def sub_positive(inp):
    """inp: {'kind', 'm', 'layout', 'layout2'?}: render, parse, match; layouts agree."""
    kind, m = inp['kind'], inp['m']
    lay = mast.Layout.from_json(inp.get('layout'))
    text = _render(kind, m, lay)
    k, r = lib.outcome(kind, text)
    if k != 'ast':
        raise Violation(
            'positive', f'rejected:{k}:{_shape(m)}', dict(inp, text=text),
            f'well-formed text rejected with {type(r).__name__}: {str(r)[:300]}\ntext: {text!r}',
        )  # fmt: skip
    diffs = _match(kind, m, r)
    if diffs:
        raise Violation(
            'positive', f'tree:{_diffsig(diffs)}', dict(inp, text=text),
            f'AST differs from the tree the grammar assigns:\n  ' + '\n  '.join(diffs[:6]) + f'\ntext: {text!r}\nprinted: {str(r)[:400]}',
        )  # fmt: skip
    if inp.get('layout2') is not None:
        text2 = _render(kind, m, mast.Layout.from_json(inp['layout2']))
        k2, r2 = lib.outcome(kind, text2)
        if k2 != 'ast' or r2 != r or hash(r2) != hash(r):
            raise Violation(
                'positive', f'layout:{k2}', dict(inp, text=text, text2=text2),
                f'layout changes the result: {text!r} vs {text2!r} -> {k2}',
            )  # fmt: skip
    return text, r


def _shape(m):
    ks = sorted({n[0] + (':' + n[1] if n[0] in ('bin', 'un', 'q', 'call', 'scope', 'pat') else '') for n in mast.walk(m)})
    return ','.join(ks)[:120]


def _diffsig(diffs):
    d = diffs[0]
    msg = d.split(': ', 1)[1] if ': ' in d else d
    import re

    return re.sub(r"[0-9.]+|'[^']*'|\"[^\"]*\"", '#', msg)[:100]


def sub_mutation(inp):
    """inp: {'kind', 'text'} a mutated text; ill-formed (per Earley) => HplSyntaxError."""
    kind, text = inp['kind'], inp['text']
    wellformed = lib.earley_accepts(kind, text)
    k, r = lib.outcome(kind, text)
    if not wellformed:
        # the transformer runs during parsing, so a type/sanity/unknown-function error in an
        # earlier part of the text may pre-empt the syntax error: any documented rejection is
        # accepted, an AST or an internal error is not
        if k not in ('syntax', 'type', 'sanity', 'value'):
            got = f'an AST: {str(r)[:300]}' if k == 'ast' else f'{type(r).__name__}: {str(r)[:200]}'
            raise Violation(
                'mutation', f'illformed-not-rejected:{k}', inp,
                f'ill-formed text (no tokenisation derivable from the .lark grammar) gave {got}\ntext: {text!r}',
            )  # fmt: skip
        return 'illformed' if k == 'syntax' else 'illformed-preempted'
    if k == 'ast':
        # cheap sanity: what was accepted prints and parses back to itself. Not judged when the accepted
        # reading uses a keyword as a name (the contextual lexer allows `x < forall + 0`; the grammar gives
        # keywords priority over names, so such texts are outside the documented language)
        if _keyword_named(r):
            return 'accepted-keyword-as-name'
        t2 = str(r)
        k2, r2 = lib.outcome(kind if kind != 'condition' else 'predicate', t2)
        if kind == 'expression':
            k2, r2 = lib.outcome('expression', t2)
        if k2 != 'ast' or r2 != r:
            raise Violation('mutation', f'unstable:{k2}', inp, f'accepted text does not re-parse to itself: {text!r} -> {t2!r} -> {k2}')
        return 'accepted'
    if k in ('other', 'recursion'):
        raise Violation('mutation', f'crash:{core.exc_sig(r)}', inp, f'{type(r).__name__}: {str(r)[:300]}\ntext: {text!r}')
    return 'derivable-' + k


def _keyword_named(a):
    for n in astx.preorder(a):
        c = astx.cname(n)
        names = []
        if c == 'HplFieldAccess':
            names.append(n.field)
        elif c == 'HplVarReference':
            names.append(n.token[1:])
        elif c == 'HplQuantifier':
            names.append(n.variable)
        elif c == 'HplSimpleEvent':
            names += [n.name, n.alias or '']
        elif c == 'HplFunctionCall':
            names.append(n.function.name)
        if any(str.__str__(x) in mast.KEYWORDS for x in names):
            return True
    return False


def sub_fusion(inp):
    """inp: {'kind', 'toks', 'at'}: tokens at, at+1 (two words) are written without a space.

    Under longest-match lexing the fused word W is one name, so the text must be
    rejected/accepted syntactically exactly like the same text with W replaced
    by a neutral name.
    """
    kind, toks, at = inp['kind'], [tuple(t) for t in inp['toks']], inp['at']
    w = toks[at][0] + toks[at + 1][0]
    if w in mast.KEYWORDS or w in ('id', 'title', 'description', 'hz'):
        return 'keyword'
    fused = toks[:at] + [(w, 'w')] + toks[at + 2 :]
    neutral = toks[:at] + [('qzw' + str(at), 'w')] + toks[at + 2 :]
    t1, t2 = mast.join_tokens(fused), mast.join_tokens(neutral)
    k1, r1 = lib.outcome(kind, t1)
    k2, r2 = lib.outcome(kind, t2)
    if (k1 == 'syntax') != (k2 == 'syntax'):
        raise Violation(
            'fusion', f'fusion:{k1}/{k2}', inp,
            f'{w!r} is one name under longest-match lexing, but {t1!r} -> {k1} while {t2!r} -> {k2}',
        )  # fmt: skip
    return k1


def sub_grammar_diff(inp):
    """inp: {'kind', 'text'}: hpl.grammar strings and the .lark files define the same parser."""
    kind, text = inp['kind'], inp['text']
    k1, r1 = lib.outcome(kind, text)
    k2, r2 = lib.outcome(kind, text, p=lib.lark_file_parser(kind))
    if k1 != k2 or (k1 == 'ast' and r1 != r2):
        raise Violation(
            'grammar_diff', f'grammar_diff:{k1}/{k2}', inp,
            f'hpl.grammar and the .lark sources disagree on {text!r}: {k1} vs {k2}',
        )  # fmt: skip


def sub_constants(_inp=None):
    import hpl.grammar as g

    want = {
        'IN_OPERATOR': 'in', 'NOT_OPERATOR': 'not', 'IMPLIES_OPERATOR': 'implies', 'IFF_OPERATOR': 'iff',
        'OR_OPERATOR': 'or', 'AND_OPERATOR': 'and', 'ALL_OPERATOR': 'forall', 'SOME_OPERATOR': 'exists',
    }  # fmt: skip
    for k, v in want.items():
        if getattr(g, k, None) != v:
            raise Violation('constants', f'const:{k}', None, f'hpl.grammar.{k} = {getattr(g, k, None)!r}, lexeme is {v!r}')
    src = lib.lark_sources()
    for name, text in (('PREDICATE_GRAMMAR', src['predicate_grammar']), ('HPL_GRAMMAR', src['hpl_grammar'])):
        a = _norm_grammar(getattr(g, name))
        b = _norm_grammar(text)
        if a != b:
            import difflib

            d = '\n'.join(list(difflib.unified_diff(b, a, 'lark files', 'hpl.grammar', lineterm='', n=0))[:12])
            raise Violation('constants', f'grammar-text:{name}', None, f'hpl.grammar.{name} differs from the .lark sources:\n{d}')


def _norm_grammar(text):
    out = []
    for line in text.splitlines():
        line = line.strip()
        if not line or line.startswith('//'):
            continue
        # the build script's only cosmetic effect: "(x)?" vs "x?"
        out.append(line.replace('(_list_of_properties)?', '_list_of_properties?').replace('(_metadata_items)?', '_metadata_items?'))
    return out


SUBS = {
    'positive': sub_positive,
    'mutation': sub_mutation,
    'fusion': sub_fusion,
    'grammar_diff': sub_grammar_diff,
    'constants': sub_constants,
}

###############################################################################
# (a) small-scope exhaustive operator tables
###############################################################################

OPS2 = list(mast.BIN_OPS)


def _leaf(i):
    return own(f'f{i}')


def _mk(op, kids, var='i'):
    """op: binary token | 'not' | 'neg' | 'forall' | 'exists'; kids: operand trees."""
    if op == 'not':
        return ('un', 'not', kids[0])
    if op == 'neg':
        return ('un', '-', kids[0])
    if op in ('forall', 'exists'):
        # the body must use the bound variable: conjoin it in a way that keeps kids[0] a direct child
        return ('q', op, var, own('ds' + var), kids[0])
    return ('bin', op, kids[0], kids[1])


def _arity(op):
    return 1 if op in ('not', 'neg', 'forall', 'exists') else 2


ALL_OPS = OPS2 + ['not', 'neg', 'forall', 'exists']


def _uses_var(m, v):
    return any(n == ('var', v) for n in mast.walk(m))


def _fix_quant(m):
    """Make every quantifier body use its variable (replace its left-most leaf by @i)."""

    def fix(n):
        if n[0] == 'q' and not _uses_var(n[4], n[2]):
            done = [False]

            def sub(x):
                if not done[0] and x[0] == 'field' and x[1] == ('this',) and x[2][1:].isdigit():
                    done[0] = True
                    return ('var', n[2])
                return x

            # left-most leaf: map_expr is bottom-up left-to-right, so the first field seen is left-most
            return ('q', n[1], n[2], n[3], mast.map_expr(n[4], sub))
        return n

    return mast.map_expr(m, fix)


def pair_trees():
    """Every operator in every child slot of every operator."""
    n = 0
    for P in ALL_OPS:
        for slot in range(_arity(P)):
            for C in ALL_OPS:
                if P in ('forall', 'exists') and C in ('forall', 'exists'):
                    c = _mk(C, [binop('=', ('var', 'j'), ('var', 'i'))], var='j')
                else:
                    c = _mk(C, [_leaf(1), _leaf(2)][: _arity(C)], var='j')
                kids = [_leaf(3), _leaf(4)][: _arity(P)]
                kids[slot] = c
                yield _fix_quant(_mk(P, kids))
                n += 1


def triple_trees(same_level_only):
    """All five shapes of three binary operators."""
    shapes = [
        lambda a, b, c, L: binop(c, binop(b, binop(a, L[0], L[1]), L[2]), L[3]),
        lambda a, b, c, L: binop(c, binop(a, L[0], binop(b, L[1], L[2])), L[3]),
        lambda a, b, c, L: binop(b, binop(a, L[0], L[1]), binop(c, L[2], L[3])),
        lambda a, b, c, L: binop(a, L[0], binop(c, binop(b, L[1], L[2]), L[3])),
        lambda a, b, c, L: binop(a, L[0], binop(b, L[1], binop(c, L[2], L[3]))),
    ]
    L = [_leaf(i) for i in range(1, 5)]
    for a, b, c in itertools.product(OPS2, repeat=3):
        if same_level_only and not (mast.BIN_LEVEL[a] == mast.BIN_LEVEL[b] == mast.BIN_LEVEL[c]):
            continue
        for sh in shapes:
            yield sh(a, b, c, L)


def run_table(ctx, trees, name):
    n = unobs = 0
    for m in trees:
        n += 1
        inp = {'kind': 'expression', 'm': m, 'layout': None}
        text = mast.render(m)
        k, r = lib.outcome('expression', text)
        if k == 'type':
            unobs += 1
            ctx.count(f'{name}:untypable')
            continue
        try:
            sub_positive(inp)
        except Violation as v:
            ctx.report(v)
        ctx.case(text, len(_levels(m)) >= 2 or name == 'triples', name, sample=text)
    ctx.count(f'{name}:total', n)
    ctx.exhaustive[name] = True


###############################################################################
# (b) random positive side, (c) mutations
###############################################################################


def positive_cases(ch):
    kind = ch.pick(['property', 'property', 'property', 'predicate', 'condition', 'expression', 'specification'])
    if kind == 'property':
        m, _info = gen.properties(ch, depth=ch.int(1, 4))
    elif kind == 'specification':
        n = ch.int(1, 3)
        m = ('spec', tuple(gen.properties(ch, depth=2)[0] for _ in range(n)))
    elif kind == 'expression':
        m = gen.standalone_terms(ch, depth=ch.int(1, 5))[0]
    else:
        m = gen.standalone_predicates(ch, depth=ch.int(1, 5))[0]
    lay = gen.layouts(ch)
    lay2 = gen.layouts(ch) if ch.bool() else None
    return {'kind': kind, 'm': m, 'layout': lay.to_json(), 'layout2': lay2.to_json() if lay2 else None}


GARBAGE = ['and', 'or', 'not', '(', ')', '{', '}', ',', ':', '=', '<', '+', '*', '**', 'x', '1', '"s"', '@v', 'in', 'to', '[', ']', '![', ']!',
           'forall', 'as', 'within', 'no', 'causes', 'globally', '.', '#', 's', 'True', '-', 'until', 'E']  # fmt: skip


def _role(t):
    if t in mast.SAFE_PUNCT:
        return 'p'
    if t and (t[0].isalnum() or t[0] in '_@"'):
        return 'num' if t[0].isdigit() else 'w'
    return 'o'


def mutation_cases(ch):
    base = positive_cases(ch)
    kind, m = base['kind'], base['m']
    toks = list(mast.tokens(('pred', m) if kind == 'predicate' else m, mast.Layout()))
    nmut = ch.int(1, 2)
    ops = []
    for _ in range(nmut):
        if not toks:
            break
        op = ch.pick(['insert', 'delete', 'substitute', 'duplicate', 'swap'])
        i = ch.int(0, len(toks) - 1)
        if op == 'insert':
            g = ch.pick(GARBAGE)
            toks.insert(i, (g, _role(g)))
        elif op == 'delete':
            del toks[i]
        elif op == 'substitute':
            g = ch.pick(GARBAGE)
            toks[i] = (g, _role(g))
        elif op == 'duplicate':
            toks.insert(i, toks[i])
        elif i + 1 < len(toks):
            toks[i], toks[i + 1] = toks[i + 1], toks[i]
        ops.append(op)
    # separate everything by one space: the mutation is at token level, not at character level
    text = ' '.join(t[0] for t in toks)
    return {'kind': kind, 'text': text, 'ops': ops}


def fusion_cases(ch):
    base = positive_cases(ch)
    kind, m = base['kind'], base['m']
    toks = mast.tokens(('pred', m) if kind == 'predicate' else m, mast.Layout())
    cands = [
        i
        for i in range(len(toks) - 1)
        if toks[i][1] == 'w' and toks[i + 1][1] == 'w' and _wordish(toks[i][0]) and _wordish(toks[i + 1][0], first=False, slash=True)
    ]
    if not cands:
        return None
    at = ch.pick(cands)
    return {'kind': kind, 'toks': [list(t) for t in toks], 'at': at}


def _wordish(t, first=True, slash=False):
    # slash: the second word of a fusion may be a channel name with '/' in it (`causes/b` is one name too)
    if not t or not all(c.isalnum() or c == '_' or (slash and c == '/') for c in t):
        return False
    return t[0].isalpha() if first else True


def shard(ctx, shard_no, nshards, n_pos, n_mut, n_fus):
    def body_pos(inp):
        text, _ = sub_positive(inp)
        ctx.case(text, nontrivial(inp['m'], text), 'pos:' + inp['kind'] + ':' + klass(inp['m']), sample=text)
        if core.h64(text) % 4 == 0:
            sub_grammar_diff({'kind': inp['kind'], 'text': text})
            ctx.count('grammar_diff:valid')

    with ctx.timed('positive'):
        core.run_hypothesis(ctx, 'positive', from_tape(positive_cases), body_pos, n_pos)

    def body_mut(inp):
        r = sub_mutation(inp)
        ctx.case(inp['text'], r.startswith('illformed'), 'mut:' + r, sample=inp['text'])
        if core.h64(inp['text']) % 4 == 0:
            sub_grammar_diff({'kind': inp['kind'], 'text': inp['text']})
            ctx.count('grammar_diff:mutated')

    with ctx.timed('mutation'):
        core.run_hypothesis(ctx, 'mutation', from_tape(mutation_cases), body_mut, n_mut)

    def body_fus(inp):
        if inp is None:
            ctx.count('fusion:no-adjacent-words')
            return
        r = sub_fusion(inp)
        toks = inp['toks']
        w = toks[inp['at']][0] + toks[inp['at'] + 1][0]
        ctx.case(('fusion', inp['kind'], tuple(map(tuple, toks)), inp['at']), r != 'keyword', 'fusion:' + r, sample=w)

    with ctx.timed('fusion'):
        core.run_hypothesis(ctx, 'fusion', from_tape(fusion_cases), body_fus, n_fus)


def run(ctx):
    try:
        sub_constants()
    except Violation as v:
        ctx.report(v)
    with ctx.timed('tables'):
        run_table(ctx, pair_trees(), 'pairs')
        run_table(ctx, triple_trees(same_level_only=True), 'triples_same_level')
    if ctx.tier == 'quick':
        core.run_sharded(ctx, __name__, 'shard', 1, (1200, 800, 400))
    else:
        run_table(ctx, triple_trees(same_level_only=False), 'triples')
        core.run_sharded(ctx, __name__, 'shard', getattr(ctx, 'shards_override', None) or 16, (12000, 8000, 4000))
