# C16 ASTs are immutable values: no API call changes an existing tree.

from hypothesis import strategies as st
from hypothesis.stateful import RuleBasedStateMachine, initialize, invariant, precondition, rule

from hplverif import astx, core, gen, lib, mast, typetok
from hplverif.core import Violation
from hplverif.tape import Chooser

RULE = (
    'rule-based state machine (Hypothesis stateful): a pool of ASTs obtained from the parser (type-directed properties, predicates, '
    'expressions; sub-trees are addressable) and their deep snapshots (structure, every stored type, metadata contents, hash); rules apply '
    'str/hash/==, every reference query, iterate, is_fully_typed, cast to each base type, but() with same and changed fields (incl. a narrower '
    'quantifier domain), replace_var_reference/replace_self_reference, simplify, split_and, refactor_reference, both replacements, negate, join, '
    'canonical_form and type_check_references(schema) to a pool member or one of its sub-trees; results join the pool; an annotate step writes a '
    'note into the metadata dict of one object the user was handed (which may change that object and what contains it, nothing else). Invariant after every '
    'rule: every snapshot taken earlier is unchanged. but() is also checked against a fresh construction. Non-trivial: the sequence contains a '
    'rewriting call whose result differs from its input; distinct by the executed program.'
)
ASSUMPTIONS = ['astx.snapshot reads every attrs field of every node (incl. data_type and metadata), so any in-place change is visible']

OPS = (
    'str', 'hash', 'eq', 'queries', 'iterate', 'fully_typed', 'cast', 'but_same', 'but_changed', 'but_domain', 'replace_var_lit',
    'replace_self', 'simplify', 'split_and', 'refactor', 'this_to_var', 'var_to_this', 'negate', 'join', 'canonical', 'type_check',
    'reconstruct', 'but_metadata', 'reparse', 'annotate', 'but_condition',
)  # fmt: skip
REWRITES = {'but_condition', 'simplify', 'split_and', 'refactor', 'this_to_var', 'var_to_this', 'negate', 'join', 'canonical', 'replace_var_lit', 'replace_self', 'but_changed', 'but_domain'}


def _is_boolish(n):
    return getattr(n, 'is_predicate', False) or (getattr(n, 'is_expression', False) and n.data_type.can_be_bool and astx.cname(n) in ('HplBinaryOperator', 'HplUnaryOperator', 'HplQuantifier'))


def _exprish(n):
    return getattr(n, 'is_predicate', False) or (getattr(n, 'is_expression', False) and astx.cname(n) not in ('HplLiteral', 'HplThisMessage', 'HplVarReference'))


TARGETS = {
    'cast': lambda n: getattr(n, 'is_expression', False),
    'but_changed': lambda n: astx.cname(n) in ('HplBinaryOperator', 'HplUnaryOperator', 'HplQuantifier', 'HplRange', 'HplPattern', 'HplSimpleEvent', 'HplProperty', 'HplPredicateExpression', 'HplSet', 'HplFunctionCall', 'HplArrayAccess', 'HplScope'),
    'but_domain': lambda n: astx.cname(n) == 'HplQuantifier',
    'but_condition': lambda n: astx.cname(n) == 'HplQuantifier',
    'replace_var_lit': lambda n: hasattr(n, 'replace_var_reference') and any(astx.cname(x) == 'HplVarReference' for x in astx.preorder(n)),
    'replace_self': lambda n: _exprish(n),
    'simplify': _exprish,
    'split_and': _is_boolish,
    'refactor': _is_boolish,
    'this_to_var': _exprish,
    'var_to_this': lambda n: _exprish(n) and any(astx.cname(x) == 'HplVarReference' for x in astx.preorder(n)),
    'negate': lambda n: getattr(n, 'is_predicate', False),
    'join': lambda n: getattr(n, 'is_predicate', False),
    'canonical': lambda n: astx.cname(n) == 'HplProperty',
    'type_check': lambda n: astx.cname(n) == 'HplProperty',
    'but_metadata': lambda n: astx.cname(n) == 'HplProperty',
    'reparse': lambda n: astx.cname(n) in ('HplProperty', 'HplPredicateExpression'),
    'fully_typed': lambda n: hasattr(n, 'is_fully_typed'),
}


class Pool:
    """Interpreter state: executes a program (list of steps) and checks the invariant after each step."""

    def __init__(self):
        self.items = []  # [ast, snapshot, description, info]
        self.program = []
        self.rewrote = False

    def add(self, ast, desc, info=None):
        if ast is None or len(self.items) >= 24:
            return
        if not hasattr(ast, '__attrs_attrs__'):
            return
        self.items.append([ast, (astx.snapshot(ast), _safe_hash(ast)), desc, info])

    def check_invariant(self):
        for ast, (snap, h), desc, _info in self.items:
            now = astx.snapshot(ast)
            if now != snap:
                raise Violation(
                    'machine', f'mutated:{self.program[-1][0] if self.program else "?"}', {'program': self.program},
                    f'an existing AST changed after step {self.program[-1]}: {desc}\n{_first_diff(snap, now)}',
                )  # fmt: skip
            if _safe_hash(ast) != h:
                raise Violation('machine', f'hash-changed:{self.program[-1][0]}', {'program': self.program}, f'hash of an existing AST changed after {self.program[-1]}: {desc}')

    # -- steps ----------------------------------------------------------------
    def new(self, kind, text, info=None):
        self.program.append(['new', kind, text, info])
        k, a = lib.outcome(kind, text)
        if k == 'ast':
            self.add(a, f'parse[{kind}] {text[:80]}', info)
        self.check_invariant()

    def annotate(self, i, k, x):
        """A user writes a note into the metadata dict of one object it was handed (a pool member's root). That changes
        this object, and every pool member that contains this very object; nothing else may change - in particular not
        the tree it was derived from (a metadata dict shared between an object and its source is how that happens)."""
        obj = self.items[(i * 61 + k) % len(self.items)][0]
        if not isinstance(getattr(obj, 'metadata', None), dict):
            return
        obj.metadata[f'note{x % 3}'] = x
        for it in self.items:
            if any(n is obj for n in astx.preorder(it[0])):
                it[1] = (astx.snapshot(it[0]), _safe_hash(it[0]))
        self.check_invariant()

    def op(self, name, i, k, x):
        if not self.items:
            return
        self.program.append([name, i, k, x])
        if name == 'annotate':
            return self.annotate(i, k, x)
        # target selection: among all (pool member, sub-tree) pairs the operation applies to
        want = TARGETS.get(name)
        cands = []
        for root, _snap, desc, info in self.items:
            for node in astx.preorder(root):
                if want is None or want(node):
                    cands.append((root, node, desc, info))
            if len(cands) > 400:
                break
        if not cands:
            return
        root, node, desc, info = cands[(i * 61 + k) % len(cands)]
        known = {id(n) for it in self.items for n in astx.preorder(it[0])}
        armed = core.arm_call_limit()
        try:
            res = self._apply(name, node, root, x, info)
        except Violation:
            raise
        except (TypeError, ValueError, AttributeError, NotImplementedError, KeyError, IndexError, AssertionError, ZeroDivisionError, OverflowError) as e:
            res = None  # whether calls fail is the business of C07/C14; here only existing trees matter
        except Exception as e:  # HplSanityError etc.
            res = None
        finally:
            core.disarm_call_limit(armed)
        if res is not None:
            results = [r for r in (res if isinstance(res, (list, tuple)) else [res]) if hasattr(r, '__attrs_attrs__') and r is not node]
            # first the plain invariant (so that an in-place change is reported as such), then the metadata probes;
            # results of one call may share new nodes with each other: all are probed before any joins the pool
            self.check_invariant()
            for r in results:
                self.probe_metadata(name, r, known)
            for r in results:
                if name in REWRITES and r != node:
                    self.rewrote = True
                self.add(r, f'{name}({desc[:60]})', info)
        self.check_invariant()

    def probe_metadata(self, name, r, known):
        """Every node object the step created (not present in any pool member before) gets a note written into its
        metadata dict for a moment, as a user of the result might do; no AST obtained earlier may show it."""
        fresh = [n for n in astx.preorder(r) if id(n) not in known and isinstance(getattr(n, 'metadata', None), dict)][:24]
        for n in fresh:
            n.metadata['__hplverif_probe__'] = 1
        try:
            if fresh:
                for ast, (snap, _h), desc, _info in self.items:
                    if astx.snapshot(ast) != snap:
                        raise Violation(
                            'machine', f'metadata-shared:{name}', {'program': self.program},
                            f'a note written into the metadata of an object created by step {self.program[-1]} shows up in an AST obtained earlier ({desc}): a metadata dict is shared between a tree and its source\n{_first_diff(snap, astx.snapshot(ast))}',
                        )  # fmt: skip
        finally:
            for n in fresh:
                n.metadata.pop('__hplverif_probe__', None)

    def _apply(self, name, node, root, x, info):
        from hpl import rewrite as rw
        from hpl.types import DataType

        is_expr = getattr(node, 'is_expression', False)
        is_pred = getattr(node, 'is_predicate', False)
        if name == 'str':
            str(node)
            repr(node)
            return None
        if name == 'hash':
            hash(node)
            return None
        if name == 'eq':
            other = self.items[x % len(self.items)][0]
            node == other
            other == node
            return None
        if name == 'queries':
            for q in ('external_references', 'contains_self_reference', 'aliases', 'children', 'simple_events', 'events'):
                f = getattr(node, q, None)
                if f is not None:
                    try:
                        r = f()
                        if hasattr(r, '__next__'):
                            list(r)
                    except Exception:
                        pass
            for q in ('contains_reference', 'contains_definition'):
                f = getattr(node, q, None)
                if f is not None:
                    try:
                        f('A')
                    except Exception:
                        pass
            if hasattr(node, 'check_some_self_references'):
                try:
                    node.check_some_self_references()
                except Exception:
                    pass
            return None
        if name == 'iterate':
            list(node.iterate())
            return None
        if name == 'fully_typed':
            if hasattr(node, 'is_fully_typed'):
                node.is_fully_typed()
            return None
        if name == 'cast':
            if is_expr:
                return node.cast(DataType(1 << (x % 7)))
            return None
        if name == 'but_same':
            fields = [a.name for a in node.__attrs_attrs__ if a.init and a.name != 'metadata']
            if not fields:
                return None
            f = fields[x % len(fields)]
            r = node.but(**{f: getattr(node, f)})
            if r is not node:
                raise Violation('machine', f'but-same:{astx.cname(node)}', {'program': self.program}, f'but({f}=<same value>) did not return the same object for {node}')
            return None
        if name == 'but_changed':
            return self._but_changed(node, x)
        if name == 'but_domain':
            from hpl.ast import HplLiteral, HplRange, HplSet

            if astx.cname(node) == 'HplQuantifier':
                dom = [HplRange(HplLiteral.number(0), HplLiteral.number(3)), HplSet((HplLiteral.number(1), HplLiteral.number(2))), HplSet((HplLiteral('"a"', '"a"'),))][x % 3]
                return self._checked_but(node, {'domain': dom})
            return None
        if name == 'but_condition':
            # the new condition is a sub-tree of an existing tree (of this very quantifier's condition first) that mentions
            # the bound variable - a bare accessor, an operand, a nested operator: constructors must not re-type it in place
            if astx.cname(node) == 'HplQuantifier':
                subs = [n for n in astx.preorder(node.condition) if n is not node.condition and getattr(n, 'is_expression', False) and n.data_type.can_be_bool and astx.mentions_var(n, node.variable)]
                subs += [n for it in self.items for n in astx.preorder(it[0]) if getattr(n, 'is_expression', False) and n.data_type.can_be_bool and astx.mentions_var(n, node.variable) and n is not node.condition][:6]
                if subs:
                    return self._checked_but(node, {'condition': subs[x % len(subs)]})
            return None
        if name == 'replace_var_lit':
            from hpl.ast import HplLiteral

            names = sorted({n.token[1:] for n in astx.preorder(node) if astx.cname(n) == 'HplVarReference'})
            if names and hasattr(node, 'replace_var_reference'):
                lit = [HplLiteral.number(3), HplLiteral('"a"', '"a"'), HplLiteral.true()][x % 3]
                return node.replace_var_reference(names[x % len(names)], lit)
            return None
        if name == 'replace_self':
            from hpl.ast import HplVarReference

            if hasattr(node, 'replace_self_reference'):
                return node.replace_self_reference(HplVarReference('@W'))
            return None
        if name == 'simplify':
            if is_expr or is_pred:
                m = astx.to_model(node)
                from hplverif import ev

                if ev.closed_ok(m):
                    return rw.simplify(node)
            return None
        if name == 'split_and':
            if is_pred or (is_expr and node.data_type.can_be_bool):
                return rw.split_and(node)
            return None
        if name == 'refactor':
            if is_pred or (is_expr and node.data_type.can_be_bool):
                names = sorted({n.token[1:] for n in astx.preorder(node) if astx.cname(n) == 'HplVarReference'}) + ['Zz']
                return rw.refactor_reference(node, names[x % len(names)])
            return None
        if name == 'this_to_var':
            if is_expr or is_pred:
                return rw.replace_this_with_var(node, 'W')
            return None
        if name == 'var_to_this':
            if is_expr or is_pred:
                names = sorted({n.token[1:] for n in astx.preorder(node) if astx.cname(n) == 'HplVarReference'})
                if names:
                    return rw.replace_var_with_this(node, names[x % len(names)])
            return None
        if name == 'negate':
            if is_pred:
                return node.negate()
            return None
        if name == 'join':
            if is_pred:
                others = [it[0] for it in self.items if getattr(it[0], 'is_predicate', False)]
                if others:
                    return node.join(others[x % len(others)])
            return None
        if name == 'canonical':
            if astx.cname(node) == 'HplProperty':
                return rw.canonical_form(node)
            return None
        if name == 'type_check':
            if info and astx.cname(node) == 'HplProperty':
                types = typetok.msg_types(info)
                node.type_check_references(types)
            return None
        if name == 'reconstruct':
            kwargs = {a.name: getattr(node, a.name) for a in node.__attrs_attrs__ if a.init}
            return type(node)(**kwargs)
        if name == 'reparse':
            # parse the printed form again (properties: with other annotations, alone and inside a file)
            if astx.cname(node) == 'HplProperty':
                meta = ['', '# id: other%d ' % x, '# title: "t%d" # description: "d" ' % x][x % 3]
                a = lib.outcome('property', meta + str(node))[1]
                b = lib.outcome('specification', meta + str(node) + '\n# id: second\n' + str(node))[1]
                return [r for r in (a, b) if hasattr(r, '__attrs_attrs__')]
            return lib.outcome('predicate', str(node))[1]
        if name == 'but_metadata':
            if astx.cname(node) == 'HplProperty':
                r = node.but(pattern=node.pattern.but(max_time=float(x % 7)))
                if r is not node:
                    if r.metadata != node.metadata or (r.metadata is node.metadata):
                        raise Violation('machine', 'but-metadata', {'program': self.program}, f'but() result has metadata {r.metadata} (same dict: {r.metadata is node.metadata}), source has {node.metadata}')
                return r
            return None
        raise ValueError(name)

    def _but_changed(self, node, x):
        c = astx.cname(node)
        donors = [it[0] for it in self.items]
        if c == 'HplBinaryOperator':
            cand = [n for d in donors for n in astx.preorder(d) if getattr(n, 'is_expression', False) and n is not node.operand1 and n.data_type.can_be(node.operand1.data_type)]
            if cand:
                return self._checked_but(node, {'operand1': cand[x % len(cand)]})
        if c == 'HplUnaryOperator':
            cand = [n for d in donors for n in astx.preorder(d) if getattr(n, 'is_expression', False) and n is not node.operand and n.data_type.can_be(node.operand.data_type)]
            if cand:
                return self._checked_but(node, {'operand': cand[x % len(cand)]})
        if c == 'HplQuantifier':
            return self._checked_but(node, {'quantifier': 'exists' if node.is_universal else 'forall'})
        if c == 'HplRange':
            if x % 2:
                cand = [n for d in donors for n in astx.preorder(d) if getattr(n, 'is_expression', False) and n is not node.max_value and n.data_type.can_be_number]
                if cand:
                    return self._checked_but(node, {'max_value': cand[x % len(cand)]})
            return self._checked_but(node, {'exclude_min': not node.exclude_min})
        if c == 'HplSet':
            cand = [n for d in donors for n in astx.preorder(d) if getattr(n, 'is_expression', False) and n.data_type.value & 7]
            if cand:
                return self._checked_but(node, {'values': tuple(node.values) + (cand[x % len(cand)],)})
        if c == 'HplFunctionCall' and len(node.arguments) == 1:
            cand = [n for d in donors for n in astx.preorder(d) if getattr(n, 'is_expression', False) and n is not node.arguments[0] and n.data_type.can_be(node.arguments[0].data_type)]
            if cand:
                return self._checked_but(node, {'arguments': (cand[x % len(cand)],)})
        if c == 'HplArrayAccess':
            cand = [n for d in donors for n in astx.preorder(d) if getattr(n, 'is_expression', False) and n is not node.index and n.data_type.can_be_number]
            if cand:
                return self._checked_but(node, {'index': cand[x % len(cand)]})
        if c == 'HplScope' and node.activator is not None:
            evs = [n for d in donors for n in astx.preorder(d) if astx.cname(n) in ('HplSimpleEvent', 'HplEventDisjunction') and n is not node.activator]
            if evs:
                return self._checked_but(node, {'activator': evs[x % len(evs)]})
        if c == 'HplPattern':
            return self._checked_but(node, {'max_time': float(1 + x % 5)})
        if c == 'HplSimpleEvent':
            return self._checked_but(node, {'name': node.name + '_2'})
        if c == 'HplProperty':
            return self._checked_but(node, {'pattern': node.pattern.but(max_time=float(2 + x % 3))})
        if c == 'HplPredicateExpression':
            from hpl.ast import Not

            return self._checked_but(node, {'expression': Not(node.expression)})
        return None

    def _checked_but(self, node, changes):
        r = node.but(**changes)
        if r is node:
            raise Violation('machine', f'but-changed-same:{astx.cname(node)}', {'program': self.program}, f'but({list(changes)}) with a different value returned the same object')
        kwargs = {a.name: getattr(node, a.name) for a in node.__attrs_attrs__ if a.init}
        kwargs.update(changes)
        fresh = type(node)(**kwargs)
        if r != fresh or _safe_hash(r) != _safe_hash(fresh):
            raise Violation('machine', f'but-vs-fresh:{astx.cname(node)}', {'program': self.program}, f'but({list(changes)}) = {r} differs from a fresh construction {fresh}')
        if r.metadata != node.metadata or r.metadata is node.metadata:
            raise Violation('machine', f'but-metadata:{astx.cname(node)}', {'program': self.program}, f'but() metadata {r.metadata} vs source {node.metadata} (same dict: {r.metadata is node.metadata})')
        return r


def _safe_hash(x):
    try:
        return hash(x)
    except TypeError:
        return None


def _first_diff(a, b, path=''):
    if type(a) is not type(b) or not isinstance(a, tuple):
        return f'at {path or "root"}: {a!r} -> {b!r}'[:400]
    if len(a) != len(b):
        return f'at {path}: length {len(a)} -> {len(b)}'
    for i, (x, y) in enumerate(zip(a, b)):
        if x != y:
            label = x[0] if isinstance(x, tuple) and x and isinstance(x[0], str) else str(i)
            return _first_diff(x, y, f'{path}/{label}')
    return 'no difference found'


def run_program(program):
    """Replay: execute a recorded program in a fresh pool."""
    pool = Pool()
    for step in program:
        if step[0] == 'new':
            pool.new(step[1], step[2], core.detuple(step[3]) if step[3] else None)
        else:
            pool.op(step[0], step[1], step[2], step[3])
    return pool


def sub_machine(inp):
    run_program(inp['program'])


SUBS = {'machine': sub_machine}


def new_case(tape):
    ch = Chooser(tape)
    kind = ch.pick(['property', 'property', 'predicate', 'condition', 'expression'])
    if kind == 'property':
        m, info = gen.properties(ch, depth=ch.int(1, 3))
        return kind, mast.render(m), info
    if kind == 'expression':
        m = gen.standalone_terms(ch, depth=ch.int(1, 4))[0]
    else:
        m = gen.standalone_predicates(ch, depth=ch.int(1, 4))[0]
    return kind, mast.render(('pred', m) if kind == 'predicate' else m), None


QUANT_SEEDS = (
    ('predicate', '{ forall x in xs: ((@x = a) and (b > 0)) }'),
    ('predicate', '{ forall i in {@v, 1}: (@i = a) }'),
    ('predicate', '{ forall i in [0 to 3]: (flags[@i] = ok) }'),
    ('predicate', '{ exists k in ks: (m.bs[@k] or @k > lim) }'),
    ('predicate', '{ sum({x, y}) > 0 and exists k in ks: @k in {x, y} }'),
    ('property', 'after p as P: (a {x > @P.x} or b) causes c {forall i in xs: @i > 0} within 100 ms'),
)


def make_machine(ctx):
    class Machine(RuleBasedStateMachine):
        def __init__(self):
            super().__init__()
            self.pool = Pool()

        @initialize(tapes=st.lists(st.binary(min_size=512, max_size=512), min_size=1, max_size=3), n=st.integers(0, 2 * len(QUANT_SEEDS)))
        def start(self, tapes, n):
            for tape in tapes:
                kind, text, info = new_case(tape)
                self.pool.new(kind, text, info)
            if n < len(QUANT_SEEDS):
                self.pool.new(QUANT_SEEDS[n][0], QUANT_SEEDS[n][1], None)

        @precondition(lambda self: len(self.pool.items) < 2)
        @rule(tape=st.binary(min_size=512, max_size=512))
        def new(self, tape):
            kind, text, info = new_case(tape)
            self.pool.new(kind, text, info)

        @precondition(lambda self: self.pool.items)
        @rule(op=st.sampled_from(OPS + ('but_condition', 'but_condition', 'but_changed', 'but_changed', 'but_domain', 'cast', 'replace_var_lit', 'type_check')), i=st.integers(0, 30), k=st.integers(0, 60), x=st.integers(0, 30))
        def apply(self, op, i, k, x):
            self.pool.op(op, i, k, x)

        def teardown(self):
            prog = self.pool.program
            nt = self.pool.rewrote
            ctx.case(core.h64(repr(prog)), nt, 'sequence:' + ('with-rewrite' if nt else 'plain'), sample=[s[0] if s[0] != 'new' else ['new', s[1], s[2][:60]] for s in prog][:10] if nt else None)
            for s in prog:
                ctx.counts['op:' + s[0]] += 1

    return Machine


def shard(ctx, shard_no, nshards, n_runs, steps):
    from hypothesis import HealthCheck, seed, settings
    from hypothesis.stateful import run_state_machine_as_test

    for rnd in range(4 if ctx.tier == 'quick' else 8):
        Machine = make_machine(ctx)
        last = {}
        orig_op, orig_new = Pool.op, Pool.new

        s = settings(
            max_examples=n_runs, stateful_step_count=steps, database=None, deadline=None,
            report_multiple_bugs=False, suppress_health_check=list(HealthCheck), print_blob=False,
        )  # fmt: skip
        M = seed(core.derive_seed(ctx.seed, 'C16', shard_no, rnd))(Machine)
        try:
            with ctx.timed('machine'):
                _run_suppressing(ctx, M, s, last)
        except Violation as v:
            ctx.report(v)
            continue
        except Exception as e:
            if core._is_flaky(e) and 'v' in last:
                v = last['v']
                v.message += '\n(not reproduced when Hypothesis replayed the sequence in the same process: the outcome depends on earlier calls)'
                ctx.report(v)
                continue
            raise
        break


def _run_suppressing(ctx, M, s, last):
    """Run the machine; violations that are known findings / already reported do not fail it."""
    from hypothesis.stateful import run_state_machine_as_test

    orig = Pool.check_invariant
    orig_apply = Pool._apply

    def guarded_apply(self, name, node, root, x, info):
        try:
            return orig_apply(self, name, node, root, x, info)
        except Violation as v:
            if ctx.suppressed(v):
                return None
            last['v'] = v
            raise

    def guarded_check(self):
        try:
            orig(self)
        except Violation as v:
            if ctx.suppressed(v):
                # forget the changed snapshots so that the search continues behind this finding
                for it in self.items:
                    it[1] = (astx.snapshot(it[0]), _safe_hash(it[0]))
                return
            last['v'] = v
            raise

    Pool.check_invariant = guarded_check
    Pool._apply = guarded_apply
    try:
        run_state_machine_as_test(M, settings=s)
    finally:
        Pool.check_invariant = orig
        Pool._apply = orig_apply


FIELD_TABLE_TEXTS = (
    '# id: p1\n# title: "t"\nafter a as A {x > 0}: b as B {y in [0 to @A.x]! and not (s = "u")} causes (c {forall i in xs: @i > -1} or d as D {abs(z) < 2.5}) within 100 ms',
    'after p until q {x in {1, 2, x}}: some r {xs[0] + len(xs) > 2 ** 3 implies exists j in ![0 to 3]: xs[@j] = PI}',
    'globally: no t {True}',
    'until (a or b as Z): t as M {@M.pos.x iff False} requires u {m.v[1] != "k"} within 2 s',
    'globally: a {x > 1} forbids b {not -x >= 0}',
)


def _another(value, name):
    """A value of the same kind as `value` that differs from it (None when the table has no recipe)."""
    import enum

    from hpl.ast import HplLiteral

    if isinstance(value, bool):
        return not value
    if isinstance(value, enum.Enum):
        others = [m for m in type(value) if m is not value]
        return others
    if isinstance(value, float):
        return [value + 1.0 if value != float('inf') else 5.0]
    if isinstance(value, int):
        return [value + 1]
    if isinstance(value, str):
        return [value + '2' if not value.startswith('@') else value + '2']
    if isinstance(value, tuple) and value and all(getattr(v, 'is_expression', False) for v in value):
        return [value + (value[0],), value[:-1] if len(value) > 1 else value + (HplLiteral.number(7),), tuple(reversed(value)) if len(set(map(str, value))) > 1 else value + (value[0],)]
    if getattr(value, 'is_expression', False):
        return [HplLiteral.number(7), HplLiteral.boolean(True), HplLiteral.string('zq')]
    if value is None and name == 'alias':
        return ['Q7']
    if value is None and name == 'message_type':
        return [typetok.message({'fields': {'x': ('num', 'int32')}, 'consts': {}}, 'T7')]
    return None


def run_field_table(ctx):
    """Equality takes every field but `metadata` into account: for every node of a few parsed specifications and every
    constructor field, a copy that differs in that field alone (another flag / number / name / operator / operand / type
    token - whatever the constructor accepts) must not be equal to the node; a copy that differs in metadata alone must be
    equal and hash alike."""
    with ctx.timed('field-table'):
        for text in FIELD_TABLE_TEXTS:
            k, spec = lib.outcome('specification', text)
            if k != 'ast':
                raise core.HarnessError(f'field table text rejected: {text!r}: {spec}')
            for node in astx.preorder(spec):
                if not hasattr(node, '__attrs_attrs__'):
                    continue
                cls = astx.cname(node)
                for a in node.__attrs_attrs__:
                    if not a.init:
                        continue
                    old = getattr(node, a.name)
                    if a.name == 'metadata':
                        st, r = core.guarded(node.but, metadata=dict(old, zq_note='1'))
                        if st == 'ok' and (r != node or _safe_hash(r) != _safe_hash(node)):
                            v = Violation('field_table', f'metadata-counts:{cls}', {'text': text, 'class': cls, 'field': a.name}, f'{cls}: a copy that differs in metadata alone is not equal / hashes differently: {node}')
                            ctx.report(v)
                        ctx.case(('field', text, str(node), cls, a.name), True, 'field-table:metadata')
                        continue
                    news = _another(old, a.name)
                    if isinstance(news, bool):
                        news = [news]
                    for new in news or ():
                        st, r = core.guarded(node.but, **{a.name: new})
                        if st != 'ok' or getattr(r, a.name) == old:
                            ctx.count('field-table:not-constructible')
                            continue
                        if r == node:
                            v = Violation('field_table', f'field-ignored:{cls}.{a.name}', {'text': text, 'class': cls, 'field': a.name}, f'{cls}: a copy with another {a.name} ({getattr(r, a.name)!r} instead of {old!r}) compares equal to the original {node}')
                            ctx.report(v)
                        ctx.case(('field', text, str(node), cls, a.name, str(new)), True, f'field-table:{cls}.{a.name}')


def sub_field_table(inp):
    """Replay: the whole (deterministic) table; inp names the class and field that failed."""
    ctx = core.Ctx('C16', 'quick', 1, 0)
    run_field_table(ctx)
    for v in ctx.violations:
        if (v['input'].get('class'), v['input'].get('field')) == (inp.get('class'), inp.get('field')):
            raise Violation(v['sub'], v['sig'], inp, v['message'])


SUBS['field_table'] = sub_field_table


def run(ctx):
    run_field_table(ctx)
    if ctx.tier == 'quick':
        core.run_sharded(ctx, __name__, 'shard', 1, (1000, 10))
    else:
        core.run_sharded(ctx, __name__, 'shard', getattr(ctx, 'shards_override', None) or 16, (3000, 14))
