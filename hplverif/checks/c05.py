# C05 Definite type errors are always rejected.

import itertools

from hplverif import astx, core, gen, lib, mast, typesig
from hplverif.core import Violation
from hplverif.mast import binop
from hplverif.tape import from_tape
from hplverif.typesig import B, COMPOUND, M, N, PRIM, R, S, SET

RULE = (
    'a well-typed predicate is generated type-directedly from a schema and accepted by the parser; then exactly one definite clash is injected: '
    '(i) the sub-term at a typed position (either operand of any unary/binary operator, call argument, range bound, set element, index, quantifier '
    'domain or body, predicate root) is replaced by a literal or by an operator/function application whose type is disjoint from what the position '
    'requires; (ii) a conjunct is added that uses an existing reference, whose inferred type is a single base type, at a disjoint type. The injection '
    'never touches syntax and never removes a use of a quantified variable, so TypeError is the only admissible outcome of parse_predicate / '
    'parse_condition / parse_property (and parse_expresion for kind i). A deterministic table places four kinds of reference at every typed position '
    'of the signature table (both operands of every operator, the argument of every one-argument built-in, range bounds, set element, index, indexed '
    'array, accessed message, quantifier domain and body) and uses it again at every disjoint type - after it, before it, under `or`, and behind a '
    'neutral use that leaves the type open. Non-trivial: injection below the root (depth >= 2) or kind (ii); distinct by text.'
)
ASSUMPTIONS = ['required types per position come from hplverif/typesig.py; "definite" means a literal, an operator result, a call result or a reference whose inferred type set is one base type']

ONE = ('lit', 'int', '1')
TWO = ('lit', 'int', '2')

REPLACEMENTS = [
    (B, 'bool-literal', mast.TRUE),
    (B, 'comparison', binop('<', ONE, TWO)),
    (B, 'negation', ('un', 'not', mast.FALSE)),
    (B, 'call-bool', ('call', 'bool', ONE)),
    (N, 'number-literal', ONE),
    (N, 'arithmetic', binop('+', ONE, TWO)),
    (N, 'call-number', ('call', 'abs', ONE)),
    (N, 'call-len', ('call', 'len', ('set', (ONE,)))),
    (N, 'negative', ('un', '-', ONE)),
    (S, 'string-literal', ('lit', 'str', '"a"')),
    (S, 'call-str', ('call', 'str', ONE)),
    (SET, 'set-literal', ('set', (ONE, TWO))),
    (R, 'range-literal', ('range', ONE, TWO, False, False)),
]


def fn_arg_mask(name):
    m = 0
    for params, var, _res in typesig.FUNCTIONS[name]:
        if len(params) == 1:
            m |= params[0]
    return m


def positions(m, path=(), bound=(), depth=0):
    """Typed child slots of a condition model: (path, required mask, sub-term, bound vars, slot kind, depth)."""
    k = m[0]
    if k == 'index':
        yield (path + (2,), N, m[2], bound, 'index', depth + 1)
        yield from positions(m[1], path + (1,), bound, depth + 1)
        yield from positions(m[2], path + (2,), bound, depth + 1)
    elif k == 'field':
        yield from positions(m[1], path + (1,), bound, depth + 1)
    elif k == 'set':
        for i, v in enumerate(m[1]):
            yield (path + (1, i), PRIM, v, bound, 'set-element', depth + 1)
            yield from positions(v, path + (1, i), bound, depth + 1)
    elif k == 'range':
        for i in (1, 2):
            yield (path + (i,), N, m[i], bound, 'range-bound', depth + 1)
            yield from positions(m[i], path + (i,), bound, depth + 1)
    elif k == 'un':
        p, _r = typesig.UNARY[m[1]]
        yield (path + (2,), p, m[2], bound, 'unary-operand', depth + 1)
        yield from positions(m[2], path + (2,), bound, depth + 1)
    elif k == 'bin':
        p1, p2, _r = typesig.BINARY[m[1]]
        yield (path + (2,), p1, m[2], bound, f'left-operand:{m[1]}', depth + 1)
        yield (path + (3,), p2, m[3], bound, f'right-operand:{m[1]}', depth + 1)
        yield from positions(m[2], path + (2,), bound, depth + 1)
        yield from positions(m[3], path + (3,), bound, depth + 1)
    elif k == 'q':
        yield (path + (3,), COMPOUND, m[3], bound, 'quantifier-domain', depth + 1)
        yield (path + (4,), B, m[4], bound + (m[2],), 'quantifier-body', depth + 1)
        yield from positions(m[3], path + (3,), bound, depth + 1)
        yield from positions(m[4], path + (4,), bound + (m[2],), depth + 1)
    elif k == 'call':
        yield (path + (2,), fn_arg_mask(m[1]), m[2], bound, f'call-argument:{m[1]}', depth + 1)
        yield from positions(m[2], path + (2,), bound, depth + 1)


def replace_at(m, path, new):
    if not path:
        return new
    i = path[0]
    if m[0] == 'set' and i == 1:
        elems = list(m[1])
        elems[path[1]] = replace_at(elems[path[1]], path[2:], new)
        return ('set', tuple(elems))
    lst = list(m)
    lst[i] = replace_at(lst[i], path[1:], new)
    return tuple(lst)


def unvalued(m):
    """Value model (astx.to_model) -> lexeme model that mast.render accepts."""

    def f(n):
        if n[0] == 'lit':
            kind, v = n[1], n[2]
            if kind == 'bool':
                return ('lit', 'bool', 'True' if v else 'False')
            if kind in ('int', 'float'):
                if v < 0:
                    return ('un', '-', ('lit', kind, repr(-v)))
                return ('lit', kind, repr(v))
            return ('lit', 'str', v)
        return n

    return mast.map_expr(m, f)


def inject_i(ch, m):
    """Kind (i): replace a typed position by a term of a definitely disjoint type. Returns (model, info) or None."""
    cands = [((), B, m, (), 'predicate-root', 0)] + list(positions(m))
    ok = []
    for path, req, sub, bound, slot, depth in cands:
        if set(bound) & mast.all_vars(sub) and slot != 'quantifier-body':
            continue  # never remove a use of a quantified variable
        if slot == 'quantifier-body' and bound and bound[-1] in mast.all_vars(sub) and any(b in mast.all_vars(sub) for b in bound[:-1]):
            continue  # the body also uses an outer variable: replacing it could remove that use
        ok.append((path, req, sub, bound, slot, depth))
    if not ok:
        return None
    deep = [c for c in ok if c[5] >= 2]
    path, req, sub, bound, slot, depth = ch.pick(deep) if deep and ch.int(0, 3) > 0 else ch.pick(ok)
    reps = [r for r in REPLACEMENTS if not (r[0] & req)]
    if slot == 'quantifier-domain':
        reps = [r for r in reps if mast.level(r[2]) == 9]  # the grammar wants an atomic value here
    if slot == 'quantifier-body':
        v = ('var', bound[-1])
        reps = [(N, 'arithmetic-on-variable', binop('+', v, ONE)), (S, 'str-of-variable', ('call', 'str', v)), (SET, 'set-of-variable', ('set', (v,)))]
    if slot.startswith(('left-operand:=', 'right-operand:=', 'left-operand:!=', 'right-operand:!=')):
        # additionally: a primitive of another kind than the other side's definite type
        other = None
    if not reps:
        return None
    mask, rname, term = ch.pick(reps)
    info = {'kind': 'i', 'slot': slot, 'depth': depth, 'replacement': rname, 'required': typesig.mask_name(req)}
    if slot != 'quantifier-body':
        # the same clash by substitution: a variable stands at the position, the library replaces it by the term
        info['by_substitution'] = {'holder': replace_at(m, path, SUBST_VAR), 'term': mast.render(term)}
    return replace_at(m, path, term), info


def inject_eq(ch, m):
    """Kind (i'), for = / !=: one side is a literal / operator / call of a definite primitive type; replace the other by another primitive kind."""
    cands = []
    for path, req, sub, bound, slot, depth in positions(m):
        if not slot.startswith(('left-operand:=', 'right-operand:=', 'left-operand:!=', 'right-operand:!=')):
            continue
        if set(bound) & mast.all_vars(sub):
            continue
        parent = m
        for i in path[:-1]:
            parent = parent[1][i] if parent[0] == 'set' and isinstance(parent[1], tuple) and i != 1 else parent[i]
        cands.append((path, sub, slot, depth))
    if not cands:
        return None
    path, sub, slot, depth = ch.pick(cands)
    # the sibling operand
    sib_path = path[:-1] + ((3,) if path[-1] == 2 else (2,))
    sib = m
    for i in sib_path:
        sib = sib[i]
    d = definite_mask(sib)
    if d is None or d not in (B, N, S):
        return None
    reps = [r for r in REPLACEMENTS if r[0] in (B, N, S) and r[0] != d]
    mask, rname, term = ch.pick(reps)
    return replace_at(m, path, term), {'kind': 'i', 'slot': slot + ':vs-definite-sibling', 'depth': depth, 'replacement': rname, 'required': typesig.mask_name(d)}


def definite_mask(m):
    k = m[0]
    if k == 'lit':
        return {'bool': B, 'int': N, 'float': N, 'str': S}[m[1]]
    if k == 'const':
        return N
    if k == 'un':
        return typesig.UNARY[m[1]][1]
    if k == 'bin':
        return typesig.BINARY[m[1]][2]
    if k == 'q':
        return B
    if k == 'call':
        return typesig.fn_result(m[1])
    if k == 'set':
        return SET
    if k == 'range':
        return R
    return None


USES = {
    N: lambda r: binop('>', binop('+', r, ONE), ('lit', 'int', '0')),
    B: lambda r: binop('or', r, mast.FALSE),
    S: lambda r: binop('=', r, ('lit', 'str', '"zz"')),
    typesig.A: lambda r: binop('in', ONE, r),
    M: lambda r: binop('>', ('field', r, 'zz9'), ('lit', 'int', '0')),
}


REF_KIND_MASK = B | N | S | typesig.A | M  # what a field / index reference can be at all


def required_masks(m):
    """Independent of the library: for every reference spelled in the model (outside quantifier scopes), the intersection
    of what its positions require according to the signature table (operand, argument, bound, element, index, domain)."""
    req = {}
    for path, mask, sub, bound, slot, depth in [((), B, m, (), 'predicate-root', 0)] + list(positions(m)):
        if sub[0] in ('field', 'index') and not (set(bound) & mast.all_vars(sub)):
            req[sub] = req.get(sub, REF_KIND_MASK) & mask
    return req


def inject_ii(ch, m, ast):
    """Kind (ii): conjoin a use of an existing, definitely typed reference at a disjoint type."""
    if ch.int(0, 2) == 0:
        # table-driven variant: the positions of the reference already require a type set (from the signature table,
        # not from the library's inference); the added use requires a disjoint one
        bound_all = {n[2] for n in mast.walk(m) if n[0] == 'q'}
        cands = [(r, mk) for r, mk in required_masks(m).items() if mk and mk != REF_KIND_MASK and not (mast.all_vars(r) & bound_all)]
        cands = [(r, mk) for r, mk in cands if any(not (u & mk) for u in USES)]
        if cands:
            ref, mk = ch.pick(sorted(cands, key=repr))
            u = ch.pick([u for u in USES if not (u & mk)])
            use = USES[u](ref)
            new = binop('and', m, use) if ch.bool() else binop('and', use, m)
            return new, {'kind': 'ii', 'reference': mast.render(ref), 'required-by-positions': typesig.mask_name(mk), 'used-as': typesig.mask_name(u), 'depth': 1, 'slot': 'same-reference-table'}
    root = ast.expression if astx.cname(ast) == 'HplPredicateExpression' else ast
    bound_names = {n.variable for n in astx.preorder(root) if astx.cname(n) == 'HplQuantifier'}
    # spellings of the references as they occur in the text (the same reference must be spelled the same way)
    from hplverif import ev as _ev

    spell = {}
    for r in mast.walk(m):
        if r[0] in ('field', 'index'):
            spell.setdefault(repr(_ev.valued(r)), set()).add(r)
    cands = []
    for n in astx.preorder(root):
        c = astx.cname(n)
        if c in ('HplFieldAccess', 'HplArrayAccess'):
            t = n.data_type.value
            if t in (B, N, S, typesig.A, M):
                model = astx.to_model(n)
                forms = spell.get(repr(model), ())
                if len(forms) == 1 and not (mast.all_vars(model) & bound_names):
                    cands.append((t, next(iter(forms))))
    if not cands:
        return None
    t, ref = ch.pick(cands)
    others = [u for u in USES if u != t and not (u == typesig.A and t == typesig.A)]
    u = ch.pick(others)
    use = USES[u](ref)
    new = binop('and', m, use) if ch.bool() else binop('and', use, m)
    return new, {'kind': 'ii', 'reference': mast.render(ref), 'inferred': typesig.mask_name(t), 'used-as': typesig.mask_name(u), 'depth': 1, 'slot': 'same-reference'}


def _definite_elem(dom):
    """Element type of a quantifier domain when it is definite (range, or set of literals of one kind)."""
    if dom[0] == 'range':
        return N
    if dom[0] == 'set' and dom[1]:
        kinds = {definite_mask(v) for v in dom[1]}
        if len(kinds) == 1 and None not in kinds and next(iter(kinds)) in (B, N, S):
            return next(iter(kinds))
    return None


def _var_use(v, U):
    r = ('var', v)
    if U == B:
        return binop('or', r, mast.FALSE)
    if U == N:
        return binop('>', binop('+', r, ONE), ('lit', 'int', '0'))
    return binop('=', r, ('lit', 'str', '"zz"'))


def inject_iii(ch, m, env_fields):
    """Kind (iii): a quantified variable over a domain of definite element type is also used at a disjoint type.

    Either an existing quantifier gets one more use of its variable, or a fresh well-typed quantifier with a
    first un-narrowed use (@v = field) and one clashing use is conjoined.
    """
    cands = []
    for path, req, sub, bound, slot, depth in [((), B, m, (), 'root', 0)] + list(positions(m)):
        if sub[0] == 'q':
            T = _definite_elem(sub[3])
            if T is not None:
                cands.append((path, sub, T, depth))
    if cands and ch.int(0, 2) > 0:
        path, q, T, depth = ch.pick(cands)
        U = ch.pick([u for u in (B, N, S) if u != T])
        use = _var_use(q[2], U)
        body = binop(ch.pick(['and', 'or']), q[4], use) if ch.int(0, 3) > 0 else binop('and', use, q[4])
        new = replace_at(m, path, ('q', q[1], q[2], q[3], body))
        return new, {'kind': 'iii', 'slot': 'quantified-variable', 'depth': depth + 1, 'element': typesig.mask_name(T), 'used-as': typesig.mask_name(U)}
    T = ch.pick([B, N, S])
    lits = {B: [mast.TRUE, mast.FALSE], N: [ONE, TWO], S: [('lit', 'str', '"a"'), ('lit', 'str', '"b"')]}[T]
    dom = ('range', ONE, ('lit', 'int', '3'), False, ch.bool()) if T == N and ch.bool() else ('set', tuple(lits))
    v = 'q9'
    fld = mast.own(ch.pick(env_fields)) if env_fields else lits[0]
    first = binop(ch.pick(['=', '!=']), ('var', v), fld) if ch.bool() else binop('in', ('var', v), ('set', (fld, lits[0])))
    U = ch.pick([u for u in (B, N, S) if u != T])
    body = binop(ch.pick(['and', 'or', 'implies']), first, _var_use(v, U))
    q = ('q', ch.pick(['forall', 'exists']), v, dom, body)
    new = binop('and', m, q) if ch.bool() else binop('or', q, m)
    return new, {'kind': 'iii', 'slot': 'quantified-variable', 'depth': 2, 'element': typesig.mask_name(T), 'used-as': typesig.mask_name(U), 'fresh': True}


def sub_rejects(inp):
    """inp: {'kind': predicate|condition|expression|property, 'text', 'injection': {...}}: must raise TypeError."""
    k, r = lib.outcome(inp['kind'], inp['text'])
    if k == 'type':
        return 'rejected'
    inj = inp.get('injection', {})
    got = f'returned an AST: {r}' if k == 'ast' else f'raised {type(r).__name__}: {str(r)[:200]}'
    raise Violation(
        'rejects', f'{k}:{inj.get("kind")}:{inj.get("slot")}:{inj.get("replacement", inj.get("used-as"))}', inp,
        f'a predicate with one definite type clash ({inj}) {got}\ntext: {inp["text"]!r}\nwell-typed original: {inp.get("base_text")!r}',
    )  # fmt: skip


SUBST_VAR = ('var', 'x9')


def sub_substitution(inp):
    """inp: {'kind': predicate|condition|event, 'text': well-typed text with @x9 at one typed position, 'term': expression
    text of a definitely disjoint type, 'injection'}: replace_var_reference('x9', term) must raise TypeError, like the
    parser does for the text with the term written at that position - an ill-typed predicate is never returned."""
    kind = inp['kind']
    if kind == 'event':
        k, p = lib.outcome('property', inp['text'])
        a = p.pattern.behaviour if k == 'ast' else p
    else:
        k, a = lib.outcome(kind, inp['text'])
    if k != 'ast':
        return 'holder-rejected:' + k
    kt, term = lib.outcome('expression', inp['term'])
    if kt != 'ast':
        return 'term-rejected:' + kt
    st, out = core.guarded(a.replace_var_reference, 'x9', term)
    if st == 'exc' and isinstance(out, TypeError):
        return 'rejected'
    inj = inp.get('injection', {})
    got = f'returned {type(out).__name__}: {str(out)[:200]}' if st != 'exc' else f'raised {type(out).__name__}: {str(out)[:200]}'
    raise Violation(
        'substitution', f'{"returned" if st != "exc" else core.exc_sig(out)}:{inj.get("slot")}:{inj.get("replacement")}', inp,
        f'replace_var_reference puts a term of a definitely disjoint type ({inj}) at a typed position and {got}\n'
        f'holder: {inp["text"]!r}  term: {inp["term"]!r}',
    )  # fmt: skip


SUBS = {'rejects': sub_rejects, 'substitution': sub_substitution}


###############################################################################
# Systematic table: every typed position x every kind of reference x every disjoint later use
###############################################################################

ZERO = ('lit', 'int', '0')
STR_A = ('lit', 'str', '"a"')


def _as_pred(term, result_mask):
    """Wrap a term of the given result type into a boolean condition."""
    if result_mask == B:
        return term
    if result_mask == N:
        return binop('>', term, ZERO)
    if result_mask == S:
        return binop('=', term, STR_A)
    return binop('=', term, mast.own('w9'))


def _lit_for(mask):
    if mask & N:
        return ONE
    if mask & B:
        return mast.TRUE
    if mask & S:
        return STR_A
    if mask & SET:
        return ('set', (ONE, TWO))
    raise ValueError(mask)


def table_contexts(r):
    """[(slot name, required mask, condition model with r at that slot)] over every typed position of the signature table."""
    out = []
    for op, (p1, p2, res) in sorted(typesig.BINARY.items()):
        out.append((f'left-operand:{op}', p1, _as_pred(binop(op, r, _lit_for(p2)), res)))
        out.append((f'right-operand:{op}', p2, _as_pred(binop(op, _lit_for(p1), r), res)))
    for op, (p1, res) in sorted(typesig.UNARY.items()):
        out.append((f'unary-operand:{op}', p1, _as_pred(('un', op, r), res)))
    for fn in sorted(typesig.FUNCTIONS):
        mk = fn_arg_mask(fn)
        if mk:
            out.append((f'call-argument:{fn}', mk, _as_pred(('call', fn, r), typesig.fn_result(fn))))
    out.append(('range-bound:low', N, binop('in', ONE, ('range', r, ('lit', 'int', '5'), False, False))))
    out.append(('range-bound:high', N, binop('in', ONE, ('range', ZERO, r, False, True))))
    out.append(('set-element', PRIM, binop('in', ONE, ('set', (r, TWO)))))
    out.append(('index', N, binop('>', ('index', mast.own('v9'), r), ZERO)))
    out.append(('indexed-array', typesig.A, binop('>', ('index', r, ZERO), ZERO)))
    out.append(('accessed-message', M, binop('>', ('field', r, 'u9'), ZERO)))
    out.append(('quantifier-domain', COMPOUND, ('q', 'forall', 'i', r, binop('>', ('var', 'i'), ZERO))))
    out.append(('quantifier-body-operand', B, ('q', 'exists', 'i', mast.own('v9'), binop('or', r, binop('>', ('var', 'i'), ZERO)))))
    return out


TABLE_REFS = [
    ('own-field', mast.own('f9')),
    ('alias-field', ('field', ('var', 'A'), 'f9')),
    ('indexed', ('index', mast.own('g9'), ZERO)),
    ('nested-field', ('field', mast.own('m9'), 'f9')),
]


def table_cases():
    """Deterministic: for every position whose signature requires mask K, a reference placed there and then used again at
    every type disjoint from K - directly after it, before it, and behind a neutral use (`r = h9`) that leaves the type open."""
    for rname, r in TABLE_REFS:
        for slot, mk, ctx in table_contexts(r):
            mk &= REF_KIND_MASK
            base = mast.render(('pred', ctx))
            for u in sorted(USES):
                if u & mk:
                    continue
                use = USES[u](r)
                neutral = binop('=', r, mast.own('h9'))
                variants = [('after', binop('and', ctx, use)), ('before', binop('and', use, ctx)), ('or', binop('or', ctx, use))]
                if mk & PRIM and u & PRIM:
                    variants.append(('behind-neutral-use', binop('and', binop('and', ctx, neutral), use)))
                    variants.append(('around-neutral-use', binop('and', binop('and', use, neutral), ctx)))
                for vname, m in variants:
                    info = {'kind': 'table', 'slot': f'{slot}', 'reference': rname, 'required': typesig.mask_name(mk), 'used-as': typesig.mask_name(u), 'variant': vname, 'depth': 2}
                    yield {'kind': 'predicate', 'text': mast.render(('pred', m)), 'base_text': base, 'injection': info}


def qvar_table_cases():
    """The same for a quantified variable over a field domain (element type open): two uses of the variable at disjoint
    primitive types inside one binder - side by side, with one of them inside a nested quantifier, and in either order."""
    v = ('var', 'i')
    dom = mast.own('v9')
    inner_dom = mast.own('w9')
    jv = ('var', 'j')
    for slot, mk, ctx in table_contexts(v):
        mk &= PRIM
        if not mk or mk == PRIM:
            continue
        if any(n[0] == 'q' for n in mast.walk(ctx)):
            continue
        for u in (B, N, S):
            if u & mk:
                continue
            use = _var_use('i', u)
            shapes = {
                'same-body': binop('and', ctx, use),
                'same-body-reversed': binop('or', use, ctx),
                'use-in-nested': binop('and', ctx, ('q', 'exists', 'j', inner_dom, binop('or', use, binop('>', jv, ZERO)))),
                'context-in-nested': binop('and', use, ('q', 'forall', 'j', inner_dom, binop('or', ctx, binop('>', jv, ZERO)))),
                'nested-first': binop('and', ('q', 'exists', 'j', inner_dom, binop('and', binop('>', jv, ZERO), use)), ctx),
            }
            for qk in ('forall', 'exists'):
                for vname, body in shapes.items():
                    m = ('q', qk, 'i', dom, body)
                    base = mast.render(('pred', ('q', qk, 'i', dom, ctx)))
                    info = {'kind': 'table', 'slot': slot, 'reference': 'quantified-variable', 'required': typesig.mask_name(mk), 'used-as': typesig.mask_name(u), 'variant': 'qvar-' + vname, 'depth': 3}
                    yield {'kind': 'predicate', 'text': mast.render(('pred', m)), 'base_text': base, 'injection': info}


def substitution_table():
    """Deterministic: every typed position of the signature table and the top level of a predicate (bare, in parentheses,
    as the predicate of an event), holding a variable; every replacement term of a type disjoint from what the position requires."""
    x = SUBST_VAR
    ctxs = [(slot, mk, 'predicate', mast.render(('pred', c))) for slot, mk, c in table_contexts(x)]
    ctxs.append(('predicate-root', B, 'predicate', '{ @x9 }'))
    ctxs.append(('predicate-root:parentheses', B, 'predicate', '{ (@x9) }'))
    ctxs.append(('predicate-root:condition', B, 'condition', '@x9'))
    ctxs.append(('predicate-root:event', B, 'event', 'after a9 as x9: no t9 { @x9 }'))
    ctxs.append(('predicate-root:event-disjunct', B, 'event', 'after a9 as x9: no (t9 { @x9 } or u9 { (@x9) })'))
    for slot, mk, kind, text in ctxs:
        for rmask, rname, term in REPLACEMENTS:
            if rmask & mk:
                continue
            info = {'kind': 'substitution', 'slot': slot, 'replacement': rname, 'required': typesig.mask_name(mk), 'depth': 1}
            yield {'kind': kind, 'text': text, 'term': mast.render(term), 'injection': info}


def run_substitution_table(ctx):
    with ctx.timed('substitution-table'):
        for inp in substitution_table():
            try:
                r = sub_substitution(inp)
            except Violation as v:
                ctx.report(v)
                r = 'violation'
            ctx.case(('subst', inp['text'], inp['term']), r == 'rejected', f'substitution-table:{r.split(":")[0]}', sample=None)


def sub_api_call(inp):
    """inp: {'fn', 'nargs', 'at', 'ref': expression text, 'use': condition text or None, 'route'}: a call with several
    arguments (only the API builds those: the grammar has one-argument calls) holding a reference at argument `at`,
    literals elsewhere, compared with 0 and combined with a use of the same reference at a disjoint type -
    `HplPredicateExpression(call > 0 and use)`, the mirror image, or join() of the two predicates. Must raise TypeError;
    without the use (control) the construction must succeed."""
    from hpl.ast.expressions import And, HplBinaryOperator, HplFunctionCall, HplLiteral
    from hpl.ast.predicates import HplPredicateExpression

    kr, r = lib.outcome('expression', inp['ref'])
    if kr != 'ast':
        return 'reference-rejected'
    args = tuple(r if i == inp['at'] else HplLiteral.number(i + 1) for i in range(inp['nargs']))

    u = None
    if inp['use'] is not None:
        ku, u = lib.outcome('expression', inp['use'])
        if ku != 'ast':
            return 'use-not-expressible'  # e.g. a quantified variable is never an array or a message

    def build():
        pos = HplBinaryOperator('>', HplFunctionCall(inp['fn'], args), HplLiteral.number(0))
        if inp['use'] is None:
            return HplPredicateExpression(pos)
        if inp['route'] == 'and':
            return HplPredicateExpression(And(pos, u))
        if inp['route'] == 'and-mirrored':
            return HplPredicateExpression(And(u, pos))
        return HplPredicateExpression(pos).join(HplPredicateExpression(u))

    st, out = core.guarded(build)
    if inp['use'] is None:
        return 'control-accepted' if st == 'ok' else 'control-rejected'
    if st == 'exc' and isinstance(out, TypeError):
        return 'rejected'
    got = f'returned {str(out)[:200]}' if st == 'ok' else f'raised {type(out).__name__}: {str(out)[:200]}'
    raise Violation(
        'api_call', f'{"returned" if st == "ok" else core.exc_sig(out)}:{inp["fn"]}/{inp["nargs"]}:argument-{"tail" if inp["at"] >= 2 else inp["at"]}', inp,
        f'{inp["fn"]}(...) with {inp["nargs"]} arguments requires a number at argument {inp["at"]} ({inp["ref"]}); the same reference is used as '
        f'{inp["use"]!r} ({inp["route"]}) and the construction {got}',
    )  # fmt: skip


SUBS['api_call'] = sub_api_call


def api_call_table():
    """Every function with an overload of two or more parameters (log, atan2, max / min / gcd with 2-5 arguments, roll /
    pitch / yaw with 4), the reference at every argument position, every use at a type disjoint from number, three routes."""
    for fn, overloads in sorted(typesig.FUNCTIONS.items()):
        for params, var, _res in overloads:
            if len(params) < 2:
                continue
            for nargs in ([len(params)] if var is None else [len(params), len(params) + 1, len(params) + 2, len(params) + 3]):
                for at in range(nargs):
                    for rname, r in TABLE_REFS[:2] + [('variable', ('var', 'v9'))]:
                        ref = mast.render(r)
                        yield {'fn': fn, 'nargs': nargs, 'at': at, 'ref': ref, 'use': None, 'route': None, 'reference': rname}
                        for u in sorted(USES):
                            if u & N:
                                continue
                            for route in ('and', 'and-mirrored', 'join'):
                                yield {'fn': fn, 'nargs': nargs, 'at': at, 'ref': ref, 'use': mast.render(USES[u](r)), 'route': route, 'reference': rname}


def run_api_call_table(ctx):
    with ctx.timed('api-call-table'):
        controls = {}
        for inp in api_call_table():
            key = (inp['fn'], inp['nargs'], inp['at'], inp['ref'])
            try:
                r = sub_api_call(inp)
            except Violation as v:
                ctx.report(v)
                r = 'violation'
            if inp['use'] is None:
                controls[key] = r
            elif controls.get(key) != 'control-accepted':
                r = 'skipped-control-not-accepted'
            ctx.case(('api-call', repr(sorted(inp.items(), key=str))), r == 'rejected', f'api-call-table:{r}', sample=None)


def run_table(ctx):
    bases = {}
    with ctx.timed('table'):
        for inp in itertools.chain(table_cases(), qvar_table_cases()):
            b = inp['base_text']
            if b not in bases:
                bases[b] = lib.outcome('predicate', b)[0]
                ctx.count('table-base:' + bases[b])
            if bases[b] != 'ast':
                ctx.count('table:skipped-base-rejected')
                continue
            try:
                sub_rejects(inp)
                r = 'rejected'
            except Violation as v:
                ctx.report(v)
                r = 'violation'
            ctx.case(inp['text'], True, f'table:{inp["injection"]["variant"]}:{r}', sample=inp['text'] if inp['injection']['variant'].endswith(('neutral-use', 'nested')) else None)


def wrap(kind, m, topic='t9'):
    if kind == 'predicate':
        return mast.render(('pred', m))
    if kind == 'property':
        return mast.render(('prop', (), ('scope', 'globally', None, None), ('pat', 'absence', None, ('ev', topic, None, m), None)))
    return mast.render(m)


def gen_case(ch):
    schema = gen.schemas(ch, depth=2)
    aliases = {a: gen.schemas(ch, depth=1, small=True) for a in ch.sample(['A', 'B'], max_size=1)}
    env = gen.Env(schema, aliases, reserved=set(aliases))
    m = gen.predicate_term(ch, env, ch.int(1, 5), need_this=False)
    if m in (mast.TRUE, mast.FALSE):
        m = binop('or', m, gen.typed_term(ch, env, 'B', 1))
    kind = ch.pick(['predicate', 'condition', 'property'] if not aliases else ['predicate', 'condition'])
    base_text = wrap(kind, m)
    k, a = lib.outcome(kind, base_text)
    if k != 'ast':
        return {'skip': 'base-rejected', 'kind': kind, 'text': base_text}
    which = ch.int(0, 6)
    res = None
    if which == 6:
        # fields of the matching primitive kind are not needed: '=' and 'in' accept any primitive field
        prim = [n for n, ft in schema['fields'].items() if ft[0] in ('bool', 'num', 'str')]
        res = inject_iii(ch, m, prim)
    elif which <= 2:
        res = inject_i(ch, m)
        if res is not None and kind != 'property' and ch.int(0, 3) == 0:
            kind = 'expression' if res[1]['slot'] != 'predicate-root' else kind
    elif which == 3:
        res = inject_eq(ch, m) or inject_i(ch, m)
    else:
        pa = a if kind != 'property' else a.pattern.behaviour.predicate
        if astx.cname(pa) == 'HplPredicateExpression':
            res = inject_ii(ch, m, pa)
        if res is None:
            res = inject_i(ch, m)
    if res is None:
        return {'skip': 'no-position', 'kind': kind, 'text': base_text}
    new, info = res
    return {'kind': kind, 'text': wrap(kind, new), 'base_text': base_text, 'injection': info}


def shard(ctx, shard_no, nshards, n):
    if shard_no == 0:
        run_table(ctx)
        run_substitution_table(ctx)
        run_api_call_table(ctx)

    def body(inp):
        if 'skip' in inp:
            ctx.count('skipped:' + inp['skip'])
            return
        sub_rejects(inp)
        inj = inp['injection']
        bs = inj.get('by_substitution')
        if bs and inp['kind'] in ('predicate', 'condition'):
            r = sub_substitution({'kind': inp['kind'], 'text': wrap(inp['kind'], bs['holder']), 'term': bs['term'], 'injection': inj})
            ctx.count('substitution:' + r.split(':')[0])
        nt = inj['kind'] in ('ii', 'iii') or inj.get('depth', 0) >= 2
        ctx.case(inp['text'], nt, f'{inj["kind"]}:{inj["slot"].split(":")[0]}', sample={'text': inp['text'], 'injection': inj})

    with ctx.timed('injections'):
        core.run_hypothesis(ctx, 'inject', from_tape(gen_case), body, n)


def run(ctx):
    if ctx.tier == 'quick':
        core.run_sharded(ctx, __name__, 'shard', 1, (3000,))
    else:
        core.run_sharded(ctx, __name__, 'shard', getattr(ctx, 'shards_override', None) or 16, (30000,))
