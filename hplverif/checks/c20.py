# C20 Type-set narrowing is set intersection.
# Exhaustive enumeration of all 128 type sets, 128^2 pairs, 128^3 triples and
# all 2^7 subsets of base types against a 7-bit integer model.

import itertools

from hplverif import core
from hplverif.core import Violation

RULE = (
    'exhaustive enumeration: every type set DataType(v), v in 0..127; every ordered pair '
    '(cast, can_be, commutativity, idempotence, monotonicity) ; every triple (associativity, '
    'sharded); every subset of the seven base types (union = least upper bound); named constants. '
    'Oracle: 7-bit integer model (a & b, TypeError iff zero). A case is non-trivial when all operands '
    'are non-empty and pairwise different; distinct by the operand tuple.'
)
ASSUMPTIONS = ['Python int bit operations as the reference model of sets over seven base types']

BITS = ['BOOL', 'NUMBER', 'STRING', 'ARRAY', 'RANGE', 'SET', 'MESSAGE']


def _dt():
    from hpl.types import DataType

    return DataType


def _bit(name):
    return 1 << BITS.index(name)


def _mk(v):
    return _dt()(v)


def _cast(a, b):
    """('ok', int) | ('err', exception class name)"""
    try:
        r = _mk(a).cast(_mk(b))
    except TypeError:
        return ('err', 'TypeError')
    except Exception as e:  # noqa
        return ('exc', type(e).__name__)
    DataType = _dt()
    if not isinstance(r, DataType):
        return ('bad', repr(r))
    return ('ok', r.value)


def _model_cast(a, b):
    return ('ok', a & b) if a & b else ('err', 'TypeError')


def sub_layout(_input=None):
    DataType = _dt()
    for i, name in enumerate(BITS):
        m = getattr(DataType, name)
        if m.value & (m.value - 1) or m.value == 0:
            raise Violation('layout', 'layout', None, f'{name} is not a single base type: {m.value}')
    vals = sorted(getattr(DataType, n).value for n in BITS)
    if vals != [1 << i for i in range(7)]:
        # the integer model below is positional; re-derive positions
        raise core.HarnessError(f'unexpected flag layout {vals}')
    for i, name in enumerate(BITS):
        if getattr(DataType, name).value != 1 << i:
            raise core.HarnessError('base types are not in declaration order')
    consts = {
        'NONE': 0,
        'PRIMITIVE': _bit('BOOL') | _bit('NUMBER') | _bit('STRING'),
        'ITEM': _bit('BOOL') | _bit('NUMBER') | _bit('STRING') | _bit('MESSAGE'),
        'COMPOUND': _bit('ARRAY') | _bit('RANGE') | _bit('SET'),
        'ANY': 127,
    }
    for name, v in consts.items():
        got = getattr(DataType, name).value
        if got != v:
            raise Violation('layout', f'const:{name}', None, f'DataType.{name} = {got}, expected {v}')


def sub_pair(inp):
    a, b = inp
    exp = _model_cast(a, b)
    got = _cast(a, b)
    if got != exp:
        raise Violation('pair', 'cast', [a, b], f'DataType({a}).cast(DataType({b})) -> {got}, model {exp}')
    got2 = _cast(b, a)
    if got2 != got:
        raise Violation('pair', 'commutative', [a, b], f'cast({a},{b})={got} but cast({b},{a})={got2}')
    A, B = _mk(a), _mk(b)
    cb = A.can_be(B)
    if cb is not bool(a & b):
        raise Violation('pair', 'can_be', [a, b], f'DataType({a}).can_be(DataType({b})) = {cb!r}, model {bool(a & b)}')
    if got[0] == 'ok':
        r = got[1]
        # idempotence: narrowing the result again by b (or a) changes nothing
        if _cast(r, b) != ('ok', r) or _cast(r, a) != ('ok', r):
            raise Violation('pair', 'idempotent', [a, b], f'cast(cast({a},{b}),{b}) != cast({a},{b})')
    # monotone in the first argument: a' = a | one more bit
    for i in range(7):
        a2 = a | (1 << i)
        if a2 == a:
            continue
        g2 = _cast(a2, b)
        if got[0] == 'ok':
            if g2[0] != 'ok' or (got[1] & ~g2[1]):
                raise Violation('pair', 'monotone', [a, b], f'cast({a},{b})={got} not within cast({a2},{b})={g2}')
    return got


def sub_single(inp):
    (a,) = inp
    A = _mk(a)
    for i, name in enumerate(BITS):
        prop = 'can_be_' + name.lower()
        got = getattr(A, prop)
        if got is not bool(a & (1 << i)):
            raise Violation('single', prop, [a], f'DataType({a}).{prop} = {got!r}')
    if a:
        if _cast(a, a) != ('ok', a):
            raise Violation('single', 'idempotent', [a], f'cast({a},{a}) = {_cast(a, a)}')
        if _cast(a, 127) != ('ok', a):
            raise Violation('single', 'any-neutral', [a], f'cast({a},ANY) = {_cast(a, 127)}')
    # union over the base types contained in a
    DataType = _dt()
    parts = [_mk(1 << i) for i in range(7) if a & (1 << i)]
    u = DataType.union(parts)
    if not isinstance(u, DataType) or u.value != a:
        raise Violation('single', 'union', [a], f'union of base types of {a} = {u!r}')
    u2 = DataType.union(iter(parts))
    if u2.value != a:
        raise Violation('single', 'union-iter', [a], f'union(iterator) of base types of {a} = {u2!r}')


def sub_union_pair(inp):
    a, b = inp
    DataType = _dt()
    u = DataType.union([_mk(a), _mk(b)])
    if u.value != (a | b):
        raise Violation('union_pair', 'union', [a, b], f'union({a},{b}) = {u.value}, model {a | b}')


def sub_triple(inp):
    a, b, c = inp
    # (a cast b) cast c  vs  a cast (b cast c): both defined and equal, or both undefined
    def chain_l():
        r = _cast(a, b)
        return r if r[0] != 'ok' else _cast(r[1], c)

    def chain_r():
        r = _cast(b, c)
        return r if r[0] != 'ok' else _cast(a, r[1])

    l, r = chain_l(), chain_r()
    exp = ('ok', a & b & c) if a & b & c else ('err', 'TypeError')
    if l != exp or r != exp:
        raise Violation('triple', 'associative', [a, b, c], f'(a.b).c={l}, a.(b.c)={r}, model {exp}')


SUBS = {
    'layout': sub_layout,
    'pair': sub_pair,
    'single': sub_single,
    'union_pair': sub_union_pair,
    'triple': sub_triple,
}


def _nontrivial(*xs):
    return all(xs) and len(set(xs)) == len(xs)


def shard_triples(ctx, shard, nshards):
    # fast path: memoise the implementation's pair table, then check every triple on it
    table = {}
    for a in range(128):
        for b in range(128):
            table[(a, b)] = _cast(a, b)
    n = 0
    nt = 0
    for a in range(shard, 128, nshards):
        for b in range(128):
            ab = table[(a, b)]
            for c in range(128):
                n += 1
                exp = a & b & c
                l = ab if ab[0] != 'ok' else table[(ab[1], c)]
                bc = table[(b, c)]
                r = bc if bc[0] != 'ok' else table[(a, bc[1])]
                ok = (l == r == ('ok', exp)) if exp else (l[0] == 'err' and r[0] == 'err')
                if not ok:
                    try:
                        sub_triple((a, b, c))
                        raise core.HarnessError('triple fast path disagrees with sub_triple')
                    except Violation as v:
                        ctx.report(v)
                if a and b and c and a != b and b != c and a != c:
                    nt += 1
    ctx.evaluations += n
    ctx.count('triples', n)
    ctx.count('triples_nontrivial', nt)
    # distinct non-trivial triples are counted, not hashed (2M hashes would be waste)
    ctx.count('nontrivial_counted', nt)
    if shard == 0:
        ctx.samples.setdefault('triple', []).extend([[3, 6, 12], [127, 5, 4]])


def run(ctx):
    try:
        sub_layout()
    except Violation as v:
        ctx.report(v)
    ctx.case('layout', False, 'layout')
    for a in range(128):
        try:
            sub_single((a,))
        except Violation as v:
            ctx.report(v)
        ctx.case(('single', a), a not in (0, 127), 'single', sample=[a] if a in (5, 96) else None)
    for a, b in itertools.product(range(128), repeat=2):
        try:
            sub_pair((a, b))
            sub_union_pair((a, b))
        except Violation as v:
            ctx.report(v)
        ctx.case(('pair', a, b), _nontrivial(a, b), 'pair', sample=[a, b] if (a, b) in ((3, 6), (8, 7)) else None)
    nshards = getattr(ctx, 'shards_override', None) or 16
    core.run_sharded(ctx, __name__, 'shard_triples', nshards)
    ctx.exhaustive['singles_128'] = True
    ctx.exhaustive['pairs_16384'] = True
    ctx.exhaustive['triples_2097152'] = True


def extra_evidence(ctx):
    nt = ctx.counts.get('nontrivial_counted', 0)
    return {
        'distinct_nontrivial': len(ctx.nontrivial) + nt,
        'explanation_distinct': 'pairs/singles hashed; non-trivial triples counted directly during enumeration (each triple is visited once)',
    }
