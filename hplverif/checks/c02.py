# C02 A property is accepted iff every alias reference is bound earlier, once.

import itertools

from hplverif import astx, core, lib, mast
from hplverif.core import Violation
from hplverif.mast import binop, own
from hplverif.tape import from_tape

RULE = (
    'properties are generated as model trees over every scope kind x pattern kind, with a simple event or a disjunction in each '
    'event position, aliases from {none, A, B} per simple event and references to @A, @B, @Z (never bound) or the own alias placed at '
    'top level, in a quantifier body or in a quantifier domain; plus quantifier-hygiene faults (unused variable, variable in its own '
    'domain, nested re-binding; sibling reuse as negative control), a shadowing family (quantifier variables, aliases and free '
    'references drawn from one pool of three names, nested to depth 3) and duplicate channels in a disjunction. Predicates are always '
    'well-typed, so sanity is the only possible reason for rejection. An independent scoping function decides accept / which clause is '
    'violated; the library must agree (HplSanityError vs success) on three construction routes: parsed text, API constructors, and '
    'but() from an accepted property. Small-scope part: all simple-event properties with one top-level reference per event are '
    'enumerated (exhaustive in the thorough tier). Non-trivial: the case has >= 1 alias reference or quantifier; distinct by text.'
)
ASSUMPTIONS = [
    'the same alias on two alternatives of one disjunction is a don\'t-care (the statement speaks of a second binding along the chain) and is not generated',
    'an event alias captured by a quantifier of the same name (finding F16, repaired) is probed by a labelled family and must be accepted',
]

###############################################################################
# Scoping oracle SC
###############################################################################


def hygiene(e, bound=()):
    """Quantifier hygiene (clause iv) of a condition; returns None or the violated sub-clause."""
    k = e[0]
    if k == 'q':
        _, _qk, var, dom, body = e
        if var in bound:
            return 'iv-nested-rebinding'
        if var in mast.all_vars(dom):
            return 'iv-variable-in-own-domain'
        if var not in mast.free_vars(body):
            # a use bound by an inner quantifier of the same name does not count (and is itself a fault)
            if any(n[0] == 'q' and n[2] == var for n in mast.walk(body)):
                return 'iv-nested-rebinding'
            return 'iv-variable-unused'
        r = hygiene(dom, bound)
        if r:
            return r
        return hygiene(body, tuple(bound) + (var,))
    for c in mast.children(e):
        r = hygiene(c, bound)
        if r:
            return r
    return None


def event_refs(ev):
    """Free @names of a (simple) event's predicate, minus its own alias."""
    _, _topic, alias, pred = ev
    if pred is None:
        return set()
    r = mast.free_vars(pred)
    if alias:
        r.discard(alias)
    return r


def sc(prop):
    """'accept' or the violated clause."""
    _, _meta, scope, pat = prop
    # (iii) and (iv) are local to events
    for _role, ev in mast.event_positions(prop):
        alts = mast.simple_events(ev)
        names = [a[1] for a in alts]
        if len(set(names)) != len(names):
            return 'iii-duplicate-channel'
        for a in alts:
            if a[3] is not None:
                r = hygiene(a[3])
                if r:
                    return r
    act, term = scope[2], scope[3]
    trig, beh = pat[2], pat[3]

    def aliases(ev):
        return [a[2] for a in mast.simple_events(ev) if a[2] is not None]

    def refs(ev):
        out = set()
        for a in mast.simple_events(ev):
            out |= event_refs(a)
        return out

    initial = []
    if act is not None:
        if refs(act):
            return 'i-unbound-reference'
        initial = aliases(act)
    order = [beh] if trig is None else ([beh, trig] if pat[1] == 'requirement' else [trig, beh])
    avail = list(initial)
    for ev in order:
        if refs(ev) - set(avail):
            return 'i-unbound-reference'
        for a in aliases(ev):
            if a in avail:
                return 'ii-alias-bound-twice'
        avail = aliases(ev) + avail
    if term is not None:
        if refs(term) - set(initial):
            return 'i-unbound-reference'
        for a in aliases(term):
            if a in initial:
                return 'ii-alias-bound-twice'
    return 'accept'


def sc_selftest():
    P = lambda s: None  # noqa: E731
    ev = lambda t, a=None, p=None: ('ev', t, a, p)  # noqa: E731
    ref = lambda a: binop('>', ('field', ('var', a), 'x'), ('lit', 'int', '0'))  # noqa: E731
    glob = ('scope', 'globally', None, None)
    cases = [
        (('prop', (), glob, ('pat', 'absence', None, ev('a'), None)), 'accept'),
        (('prop', (), glob, ('pat', 'absence', None, ev('a', None, ref('A')), None)), 'i-unbound-reference'),
        (('prop', (), glob, ('pat', 'response', ev('a', 'A'), ev('b', None, ref('A')), None)), 'accept'),
        (('prop', (), glob, ('pat', 'response', ev('a', None, ref('B')), ev('b', 'B'), None)), 'i-unbound-reference'),
        (('prop', (), glob, ('pat', 'requirement', ev('a', None, ref('B')), ev('b', 'B'), None)), 'accept'),
        (('prop', (), glob, ('pat', 'requirement', ev('a', 'A'), ev('b', None, ref('A')), None)), 'i-unbound-reference'),
        (('prop', (), ('scope', 'after', ev('p', 'A'), None), ('pat', 'absence', None, ev('b', 'A'), None)), 'ii-alias-bound-twice'),
        (('prop', (), ('scope', 'after_until', ev('p', 'A'), ev('q', None, ref('A'))), ('pat', 'absence', None, ev('b'), None)), 'accept'),
        (('prop', (), ('scope', 'until', None, ev('q', None, ref('B'))), ('pat', 'absence', None, ev('b', 'B'), None)), 'i-unbound-reference'),
        (('prop', (), glob, ('pat', 'absence', None, ('disj', (ev('a', 'A'), ev('b', None, ref('A')))), None)), 'i-unbound-reference'),
        (('prop', (), glob, ('pat', 'absence', None, ('disj', (ev('a'), ev('a'))), None)), 'iii-duplicate-channel'),
        (('prop', (), glob, ('pat', 'absence', None, ev('a', 'A', ref('A')), None)), 'accept'),
    ]
    for m, want in cases:
        got = sc(m)
        if got != want:
            raise core.HarnessError(f'scoping oracle self-test: {mast.render(m)!r}: {got}, expected {want}')


def selftest():
    sc_selftest()


###############################################################################
# Library verdicts on three routes
###############################################################################


def _verdict(fn):
    from hpl.errors import HplSanityError

    try:
        return ('accept', fn())
    except HplSanityError as e:
        return ('sanity', e)
    except Exception as e:  # noqa
        return ('other:' + type(e).__name__, e)


def build_event_api(ev, shape=0):
    from hpl.ast import HplEventDisjunction, HplSimpleEvent

    if ev[0] == 'disj':
        alts = [build_event_api(a) for a in ev[1]]
        return lib.nest(alts, shape, HplEventDisjunction)
    _, topic, alias, pred = ev
    p = None
    if pred is not None:
        p = lib.parser('predicate').parse(mast.render(('pred', pred)))
    return HplSimpleEvent.publish(topic, predicate=p, alias=alias)


def build_scope_api(scope, shape=0):
    from hpl.ast import HplScope

    _, kind, act, term = scope
    if kind == 'globally':
        return HplScope.globally()
    if kind == 'after':
        return HplScope.after(build_event_api(act, shape))
    if kind == 'until':
        return HplScope.until(build_event_api(term, shape))
    return HplScope.after_until(build_event_api(act, shape), build_event_api(term, shape // 2))


def build_pattern_api(pat, shape=0):
    from hpl.ast import HplPattern

    _, kind, trig, beh, _bound = pat
    b = build_event_api(beh, shape)
    if kind == 'existence':
        return HplPattern.existence(b)
    if kind == 'absence':
        return HplPattern.absence(b)
    t = build_event_api(trig, shape // 2 + (1 if shape else 0))
    if kind == 'response':
        return HplPattern.response(t, b)
    if kind == 'prevention':
        return HplPattern.prevention(t, b)
    return HplPattern.requirement(b, t)


_neutral = {}


def neutral_property():
    if 'p' not in _neutral:
        _neutral['p'] = lib.parser('property').parse('globally: no zz9')
    return _neutral['p']


def sub_sanity(inp):
    """inp: {'m': property model}"""
    from hpl.ast import HplProperty

    m = inp['m']
    want = sc(m)
    text = mast.render(m)
    expect = 'accept' if want == 'accept' else 'sanity'
    got, r = _verdict(lambda: lib.parser('property').parse(text))
    if got != expect:
        raise Violation(
            'sanity', f'parse:{want}:{got}', dict(inp, text=text),
            f'{text!r}: scoping oracle says {want}, the parser says {got}' + (f' ({type(r).__name__}: {str(r)[:200]})' if got != 'accept' else ''),
        )  # fmt: skip
    # API route (disjunctions nested as the parser does, or - inp['nest'] - in another shape)
    shape = inp.get('nest', 0)
    got2, r2 = _verdict(lambda: HplProperty(build_scope_api(m[2], shape), build_pattern_api(m[3], shape)))
    if got2 != expect:
        raise Violation('sanity', f'api:{want}:{got2}', dict(inp, text=text), f'{text!r} built through the API: oracle says {want}, constructors say {got2} ({r2!r})'[:600])
    if got == 'accept' and got2 == 'accept' and not shape and r != r2:
        raise Violation('sanity', 'api-differs', dict(inp, text=text), f'{text!r}: the API-built property differs from the parsed one')
    # but() route: scope and pattern are (where constructible) built on their own, then swapped into an accepted property
    parts = _verdict(lambda: (build_scope_api(m[2], shape), build_pattern_api(m[3], shape)))
    if parts[0] == 'accept':
        s, p = parts[1]
        got3, r3 = _verdict(lambda: neutral_property().but(scope=s, pattern=p))
        if got3 != expect:
            raise Violation('sanity', f'but:{want}:{got3}', dict(inp, text=text), f'{text!r} obtained with but(scope=, pattern=): oracle says {want}, but() says {got3} ({r3!r})'[:600])
        # two-step: first the pattern (under the neutral global scope), then the scope
        step = _verdict(lambda: neutral_property().but(pattern=p))
        if step[0] == 'accept':
            got4, r4 = _verdict(lambda: step[1].but(scope=s))
            if got4 != expect:
                raise Violation('sanity', f'but2:{want}:{got4}', dict(inp, text=text), f'{text!r} obtained with but(pattern=).but(scope=): oracle says {want}, but() says {got4}')
    elif expect == 'accept':
        raise Violation('sanity', f'api-parts:{parts[0]}', dict(inp, text=text), f'{text!r}: scope/pattern constructors failed: {parts[1]!r}'[:400])
    return want


def _map_model_events(ev, f):
    if ev is None:
        return None
    if ev[0] == 'disj':
        return ('disj', tuple(_map_model_events(e, f) for e in ev[1]))
    return f(ev)


def _map_lib_events(e, f):
    """Rebuild an event through but(): simple events through f, disjunctions through but(event1=, event2=)."""
    if e is None:
        return None
    if astx.cname(e) == 'HplEventDisjunction':
        a, b = _map_lib_events(e.event1, f), _map_lib_events(e.event2, f)
        return e if (a is e.event1 and b is e.event2) else e.but(event1=a, event2=b)
    return f(e)


def sub_derived(inp):
    """inp: {'m': property model, 'op': ['ref'|'bind', X, Y]}: the property is parsed (and sanity-checked) first; then a
    variant is derived FROM ITS OWN EVENT OBJECTS through the library's copy functions - every reference @X renamed to
    @Y ('ref'), or the event that binds X made to bind Y instead ('bind') - and put together with but(); the verdict
    must be the one the scoping oracle gives for the derived model (nothing remembered from the first check)."""
    from hpl.ast import HplVarReference

    m = inp['m']
    kind, X, Y = inp['op']
    if sc(m) != 'accept' or any(n[0] == 'q' and n[2] in (X, Y) for n in mast.walk(m)):
        return 'base-not-usable'
    text = mast.render(m)
    k, p = lib.outcome('property', text)
    if k != 'ast':
        return 'base-rejected'

    def model_ev(ev):
        _, topic, alias, pred = ev
        if kind == 'ref':
            if pred is not None and alias != X:
                pred = mast.replace_var_base(pred, X, ('var', Y))
            return ('ev', topic, alias, pred)
        if alias == X:
            return ('ev', topic, Y, None if pred is None else mast.replace_var_base(pred, X, ('var', Y)))
        return ev

    def lib_ev(e):
        if kind == 'ref':
            return e.replace_var_reference(X, HplVarReference('@' + Y))
        return e.but(alias=Y) if e.alias == X else e

    sc_, pt = m[2], m[3]
    m2 = ('prop', (), ('scope', sc_[1], _map_model_events(sc_[2], model_ev), _map_model_events(sc_[3], model_ev)),
          ('pat', pt[1], _map_model_events(pt[2], model_ev), _map_model_events(pt[3], model_ev), pt[4]))  # fmt: skip
    want = sc(m2)
    expect = 'accept' if want == 'accept' else 'sanity'

    def derive():
        skw = {}
        if p.scope.activator is not None:
            skw['activator'] = _map_lib_events(p.scope.activator, lib_ev)
        if p.scope.terminator is not None:
            skw['terminator'] = _map_lib_events(p.scope.terminator, lib_ev)
        pkw = {'behaviour': _map_lib_events(p.pattern.behaviour, lib_ev)}
        if p.pattern.trigger is not None:
            pkw['trigger'] = _map_lib_events(p.pattern.trigger, lib_ev)
        return p.but(scope=p.scope.but(**skw) if skw else p.scope, pattern=p.pattern.but(**pkw))

    got, r = _verdict(derive)
    if got == 'other:TypeError':
        # renaming may make two references of incompatible types coincide - two references to the renamed alias, or (when a
        # binder takes the name of an alias its own predicate refers to) a reference that now means the event's own message
        # and an own field (then a type error is the documented outcome, see C14): no verdict about scoping can be read off
        return kind + ':type-clash-abstained'
    if got != expect:
        raise Violation(
            'derived', f'{kind}:{want}:{got}', dict(inp, text=text),
            f'{text!r} with {"references to @" + X + " renamed to @" + Y if kind == "ref" else "the binder of " + X + " renamed to " + Y} (derived from the checked '
            f'property through but() / replace_var_reference()) is {mast.render(m2)!r}: the scoping oracle says {want}, the library says {got} ({str(r)[:200]})',
        )  # fmt: skip
    return kind + ':' + want


SUBS = {'sanity': sub_sanity, 'derived': sub_derived}

###############################################################################
# Generators
###############################################################################

NAMES = ('A', 'B')


def ref_pred(ch, name, placement):
    """A well-typed predicate that references the current message and (optionally) @name at the given placement."""
    base = binop('>', own('x'), ('lit', 'int', '0'))
    if name is None:
        return base if ch.bool() else None
    r = ('field', ('var', name), 'y')
    if placement == 'top':
        return binop('and', base, binop('<', own('x'), r)) if ch.bool() else binop('<', own('x'), r)
    if placement == 'qbody':
        v = ch.pick(['i', 'j'])
        return ('q', ch.pick(['forall', 'exists']), v, own('xs'), binop('>', ('var', v), r))
    if placement == 'qdomain':
        v = ch.pick(['i', 'j'])
        return ('q', ch.pick(['forall', 'exists']), v, ('field', ('var', name), 'ys'), binop('>', ('var', v), own('x')))
    if placement == 'nested':
        return ('un', 'not', binop('implies', base, ('call', 'bool', binop('=', r, ('set', (own('x'),)) and own('x')))))
    zero, one = ('lit', 'int', '0'), ('lit', 'int', '1')
    v = ch.pick(['i', 'j'])
    qk = ch.pick(['forall', 'exists'])
    if placement == 'index':
        return binop('>', ('index', own('xs'), r), zero)
    if placement == 'range-bound':
        return binop('in', own('x'), ('range', zero, r, False, ch.bool()) if ch.bool() else ('range', r, one, ch.bool(), False))
    if placement == 'set-element':
        return binop('in', own('x'), ('set', (one, r)) if ch.bool() else ('set', (r,)))
    if placement == 'call-argument':
        return binop('>', ('call', ch.pick(['abs', 'len', 'max']), r), own('x'))
    if placement == 'indexed-alias':
        return binop('>', ('index', ('field', ('var', name), 'ys'), ch.pick([zero, own('x')])), own('x'))
    if placement == 'qdomain-range':
        dom = ('range', zero, r, False, False) if ch.bool() else ('range', r, one, False, True)
        return ('q', qk, v, dom, binop('>', ('var', v), own('x')))
    if placement == 'qdomain-set':
        dom = ('set', (one, r)) if ch.bool() else ('set', (r,))
        return ('q', qk, v, dom, binop('>', own('x'), ('var', v)))
    if placement == 'qdomain-inner':
        # the domain of a quantifier inside the body of another one
        inner = ('q', ch.pick(['forall', 'exists']), 'k', ('set', (r, ('var', v))), binop('>', ('var', 'k'), zero))
        return ('q', qk, v, own('xs'), inner)
    if placement == 'qbody-index':
        return ('q', qk, v, own('xs'), binop('>', ('index', own('zs'), r), ('var', v)))
    raise ValueError(placement)


# every syntactic position a reference can stand at
PLACEMENTS = ['top', 'top', 'top', 'qbody', 'qdomain', 'nested', 'index', 'range-bound', 'set-element', 'call-argument', 'indexed-alias',
              'qdomain-range', 'qdomain-set', 'qdomain-inner', 'qbody-index']  # fmt: skip


def gen_simple(ch, topic, own_alias_prob=4):
    alias = ch.pick([None, None, 'A', 'A', 'B', 'C'])
    which = ch.pick([None, None, None, None, None, None, 'A', 'A', 'B', 'Z', 'own', 'own'])
    if which == 'own':
        which = alias
    pred = ref_pred(ch, which, ch.pick(PLACEMENTS))
    return ('ev', topic, alias, pred)


def gen_event(ch, topics):
    w = ch.pick([1, 1, 1, 2, 2, 3, 4])
    ts_ = ch.sample(topics, min_size=w, max_size=w)
    if ch.int(0, 11) == 0 and w >= 2:
        j = ch.int(1, w - 1)
        ts_[j] = ts_[ch.int(0, j - 1)]  # duplicate channel fault: any two alternatives, adjacent or not
    evs = [gen_simple(ch, t) for t in ts_]
    if w == 1:
        return evs[0]
    # the same alias on two alternatives is a don't-care: make aliases distinct within a disjunction
    seen = set()
    fixed = []
    for e in evs:
        if e[2] is not None and e[2] in seen:
            e = ('ev', e[1], None, None if e[3] is not None and e[2] in mast.all_vars(e[3]) else e[3])
        if e[2]:
            seen.add(e[2])
        fixed.append(e)
    return ('disj', tuple(fixed))


TOPICS = ('a', 'b', 'c', 'd', 'e1', 'node')


def gen_case(ch):
    sk = ch.pick(['globally', 'after', 'until', 'after_until'])
    pk = ch.pick(['existence', 'absence', 'response', 'prevention', 'requirement'])
    act = gen_event(ch, TOPICS) if sk in ('after', 'after_until') else None
    term = gen_event(ch, TOPICS) if sk in ('until', 'after_until') else None
    trig = gen_event(ch, TOPICS) if pk not in ('existence', 'absence') else None
    beh = gen_event(ch, TOPICS)
    m = ('prop', (), ('scope', sk, act, term), ('pat', pk, trig, beh, None))
    return {'m': m, 'nest': ch.pick([0, 0, 1, 2, 5, 11])}


def gen_hygiene_case(ch):
    """Quantifier hygiene faults (clause iv) and the sibling-reuse control."""
    xs, ys = own('xs'), own('ys')
    gt = lambda a, b: binop('>', a, b)  # noqa: E731
    zero = ('lit', 'int', '0')
    i = ('var', 'i')
    kind = ch.int(0, 6)
    qk = ch.pick(['forall', 'exists'])
    qk2 = ch.pick(['forall', 'exists'])
    if kind == 0:
        cond = ('q', qk, 'i', xs, gt(own('x'), zero))  # unused
    elif kind == 1:
        cond = ('q', qk, 'i', ('set', (i, zero)), gt(i, zero))  # in own domain
    elif kind == 2:
        cond = ('q', qk, 'i', xs, ('q', qk2, 'i', ys, gt(i, zero)))  # nested re-binding
    elif kind == 3:
        cond = ('q', qk, 'i', xs, binop('and', gt(i, zero), ('q', qk2, 'i', ys, gt(i, own('x')))))  # nested re-binding, outer used
    elif kind == 4:
        cond = binop('and', ('q', qk, 'i', xs, gt(i, zero)), ('q', qk2, 'i', ys, gt(i, own('x'))))  # siblings: fine
    elif kind == 5:
        cond = ('q', qk, 'i', xs, ('q', qk2, 'j', ys, gt(i, ('var', 'j'))))  # proper nesting: fine
    else:
        cond = ('q', qk, 'i', ('range', zero, ('call', 'len', xs), False, True), gt(('index', xs, i), zero))  # fine
    wrap = ch.int(0, 2)
    if wrap == 1:
        cond = binop('or', gt(own('x'), zero), cond)
    elif wrap == 2:
        cond = ('un', 'not', cond)
    ev = ('ev', 'a', ch.pick([None, 'A']), cond)
    m = ('prop', (), ('scope', 'globally', None, None), ('pat', ch.pick(['absence', 'existence']), None, ev, None))
    return {'m': m}


def gen_capture_case(ch):
    """Own alias captured by a quantifier of the same name (outside the domain; finding F16)."""
    n = ch.pick(['i', 'A'])
    cond = ('q', ch.pick(['forall', 'exists']), n, own('xs'), binop('>', ('var', n), ('lit', 'int', '0')))
    m = ('prop', (), ('scope', 'globally', None, None), ('pat', 'absence', None, ('ev', 'a', n, cond), None))
    return {'m': m}


SHADOW_NAMES = ('A', 'B', 'v')


def _shadow_part(ch, bound, depth):
    """One boolean part of a shadowing predicate. `bound`: names bound by enclosing quantifiers (for typing only:
    such a name is a primitive variable, so it is used bare; any other name is used as a message, `@n.y`)."""
    gt = lambda a, b: binop('>', a, b)  # noqa: E731
    zero = ('lit', 'int', '0')

    def use(n):
        return ('var', n) if n in bound else ('field', ('var', n), 'y')

    k = ch.int(0, 5) if depth > 0 else ch.int(0, 2)
    if k == 0:
        return gt(own('x'), zero)
    if k in (1, 2):
        return binop('<', own('x'), use(ch.pick(SHADOW_NAMES)))
    # a quantifier whose variable is drawn from the same pool as the aliases
    n = ch.pick(SHADOW_NAMES)
    dom_alias = ch.pick([None, None, None] + [a for a in SHADOW_NAMES if a not in bound])
    dom = own(ch.pick(['xs', 'ys'])) if dom_alias is None else ('field', ('var', dom_alias), 'ys')
    if depth > 0 and ch.int(0, 4) == 0:
        # a quantifier INSIDE the domain (as a range bound, behind a conversion; or inside an index): its variable comes
        # from the same pool, so it may be the very name the outer quantifier binds
        n2 = ch.pick(SHADOW_NAMES)
        inner = ('q', ch.pick(['forall', 'exists']), n2, own('zs'), gt(('var', n2), zero))
        if ch.bool():
            dom = ('range', zero, ('call', 'int', inner), False, ch.bool())
        else:
            dom = ('field', ('index', own('ms'), ('call', 'int', inner)), 'ys')
    inner = tuple(bound) + (n,)
    bk = ch.int(0, 5)
    if bk == 0:
        body = gt(('var', n), zero)
    elif bk == 1:
        m = ch.pick(SHADOW_NAMES)
        body = gt(('var', n), ('var', m) if m in inner else ('field', ('var', m), 'y'))
    elif bk == 2:
        body = binop(ch.pick(['and', 'or', 'implies']), gt(('var', n), zero), _shadow_part(ch, inner, depth - 1))
    elif bk == 3:
        body = binop(ch.pick(['and', 'or']), _shadow_part(ch, inner, depth - 1), gt(own('x'), ('var', n)))
    elif bk == 4:
        body = _shadow_part(ch, inner, depth - 1)  # the variable may end up unused
    else:
        body = ('un', 'not', gt(('var', n), own('x')))
    return ('q', ch.pick(['forall', 'exists']), n, dom, body)


def dup_table():
    """Clause (iii), deterministically: disjunctions of width 2-4 in every event position, every pair of alternatives on the
    same channel (and none, as control), every nesting shape of the API-built disjunction."""
    names = ('a', 'b', 'c', 'd')
    for role in ('behaviour', 'trigger', 'activator', 'terminator'):
        for w in (2, 3, 4):
            pairs = [None] + [(i, j) for j in range(w) for i in range(j)]
            for pair in pairs:
                tops = list(names[:w])
                if pair:
                    tops[pair[1]] = tops[pair[0]]
                disj = ('disj', tuple(('ev', t, None, None) for t in tops))
                other = ('ev', 'z', None, None)
                sk = {'activator': 'after', 'terminator': 'until'}.get(role, 'globally')
                pk = 'response' if role == 'trigger' else 'absence'
                scope = ('scope', sk, disj if role == 'activator' else None, disj if role == 'terminator' else None)
                pat = ('pat', pk, disj if role == 'trigger' else None, disj if role == 'behaviour' else other, None)
                for nest in (0, 1, 2, 3, 4, 5, 7, 11):
                    yield {'m': ('prop', (), scope, pat), 'nest': nest}


def gen_shadow_case(ch):
    """Quantifier variables, event aliases and free references drawn from one small pool of names: a name bound by a
    quantifier is bound only inside that quantifier (a sibling or later use of the same name is a free reference that an
    earlier event must bind), the domain of a quantifier is outside its own scope, and enclosing binders shadow aliases."""
    sk = ch.pick(['globally', 'globally', 'after', 'after_until'])
    pk = ch.pick(['absence', 'response', 'response', 'requirement', 'prevention'])

    def simple(topic, with_pred):
        alias = ch.pick([None] + list(SHADOW_NAMES))
        pred = None
        if with_pred:
            parts = [_shadow_part(ch, (), 2) for _ in range(ch.int(1, 3))]
            pred = parts[0]
            for q in parts[1:]:
                pred = binop(ch.pick(['and', 'and', 'or', 'implies']), pred, q)
            if ch.int(0, 5) == 0:
                pred = ('un', 'not', pred)
        return ('ev', topic, alias, pred)

    act = simple('p', False) if sk != 'globally' else None
    term = simple('q', ch.bool()) if sk == 'after_until' else None
    trig = simple('a', ch.int(0, 3) == 0) if pk != 'absence' else None
    beh = simple('b', True)
    return {'m': ('prop', (), ('scope', sk, act, term), ('pat', pk, trig, beh, None))}


###############################################################################
# Small-scope exhaustive family: simple events, one top-level reference per event
###############################################################################


def small_space():
    opts = []
    for alias in (None, 'A', 'B'):
        for ref in (None, 'A', 'B', 'Z'):
            opts.append((alias, ref))
    combos = []
    for sk in ('globally', 'after', 'until', 'after_until'):
        for pk in ('existence', 'absence', 'response', 'prevention', 'requirement'):
            roles = []
            if sk in ('after', 'after_until'):
                roles.append('act')
            if sk in ('until', 'after_until'):
                roles.append('term')
            if pk not in ('existence', 'absence'):
                roles.append('trig')
            roles.append('beh')
            combos.append((sk, pk, roles))
    return opts, combos


def small_count():
    opts, combos = small_space()
    return sum(len(opts) ** len(r) for _, _, r in combos)


def small_nth(idx):
    opts, combos = small_space()
    for sk, pk, roles in combos:
        n = len(opts) ** len(roles)
        if idx < n:
            choice = []
            for _ in roles:
                choice.append(opts[idx % len(opts)])
                idx //= len(opts)
            evs = {}
            for role, topic, (alias, ref) in zip(roles, ('p', 'q', 'a', 'b'), choice):
                pred = None if ref is None else binop('<', own('x'), ('field', ('var', ref), 'y'))
                evs[role] = ('ev', {'act': 'p', 'term': 'q', 'trig': 'a', 'beh': 'b'}[role], alias, pred)
            return ('prop', (), ('scope', sk, evs.get('act'), evs.get('term')), ('pat', pk, evs.get('trig'), evs['beh'], None))
        idx -= n
    raise IndexError


def _nontrivial(m):
    return any(n[0] == 'var' or n[0] == 'q' for n in mast.walk(m))


def shard_small(ctx, shard_no, nshards, stride):
    tot = small_count()
    idx = ctx.seed % stride + shard_no * stride
    with ctx.timed('small'):
        while idx < tot:
            m = small_nth(idx)
            idx += stride * nshards
            try:
                w = sub_sanity({'m': m})
            except Violation as v:
                ctx.report(v)
                w = 'violation'
            ctx.case(mast.render(m), _nontrivial(m), 'small:' + w)
    if shard_no == 0:
        ctx.count('small:space', tot)


def shard(ctx, shard_no, nshards, n):
    def body(inp):
        w = sub_sanity(inp)
        text = mast.render(inp['m'])
        ctx.case(text, _nontrivial(inp['m']), 'random:' + w, sample=text)

    with ctx.timed('random'):
        core.run_hypothesis(ctx, 'random', from_tape(gen_case, 256), body, n)

    def body_h(inp):
        w = sub_sanity(inp)
        text = mast.render(inp['m'])
        ctx.case(text, True, 'hygiene:' + w, sample=text)

    with ctx.timed('hygiene'):
        core.run_hypothesis(ctx, 'hygiene', from_tape(gen_hygiene_case, 64), body_h, max(100, n // 5))

    if shard_no == 0:
        with ctx.timed('duplicate-channel-table'):
            for inp in dup_table():
                try:
                    w = sub_sanity(inp)
                except Violation as v:
                    ctx.report(v)
                    w = 'violation'
                ctx.case((mast.render(inp['m']), inp['nest']), True, 'duplicate-channel-table:' + w)

    def body_d(inp):
        w = sub_derived(inp)
        ctx.case((mast.render(inp['m']), tuple(inp['op'])), not w.startswith('base'), 'derived:' + w)

    def gen_derived(ch):
        from hplverif import gen

        # a base that is accepted by construction (references only to aliases bound earlier), half of the time
        if ch.bool():
            m = gen.properties(ch, depth=ch.int(0, 2), meta=False, max_width=3)[0]
        else:
            m = gen_case(ch)['m']
        aliases = sorted({e[2] for _r, ev in mast.event_positions(m) for e in mast.simple_events(ev) if e[2]})
        used = sorted({v for _r, ev in mast.event_positions(m) for e in mast.simple_events(ev) if e[3] is not None for v in mast.free_vars(e[3])} & set(aliases))
        X = ch.pick(used or aliases) if aliases else 'A'
        Y = ch.pick([y for y in aliases + ['Q9', 'Q9'] if y != X])
        return {'m': m, 'op': [ch.pick(['ref', 'bind']), X, Y]}

    with ctx.timed('derived'):
        core.run_hypothesis(ctx, 'derived', from_tape(gen_derived, 256), body_d, max(300, n // 2))

    def body_s(inp):
        w = sub_sanity(inp)
        text = mast.render(inp['m'])
        ctx.case(text, True, 'shadow:' + w, sample=text)

    with ctx.timed('shadow'):
        core.run_hypothesis(ctx, 'shadow', from_tape(gen_shadow_case, 128), body_s, max(200, n // 3))

    def body_c(inp):
        text = mast.render(inp['m'])
        try:
            w = sub_sanity(inp)
        except Violation as v:
            v.input = dict(v.input, capture_family=True)
            if not ctx.suppressed(v):
                raise
            w = 'known-finding'
        ctx.case(text, True, 'own-alias-captured:' + w, sample=text)

    with ctx.timed('capture'):
        core.run_hypothesis(ctx, 'capture', from_tape(gen_capture_case, 32), body_c, 40)


def run(ctx):
    if ctx.tier == 'quick':
        core.run_sharded(ctx, __name__, 'shard', 1, (2500,))
        core.run_sharded(ctx, __name__, 'shard_small', 1, (25,))
    else:
        n = getattr(ctx, 'shards_override', None) or 16
        core.run_sharded(ctx, __name__, 'shard', n, (20000,))
        core.run_sharded(ctx, __name__, 'shard_small', n, (1,))
        ctx.exhaustive['simple-events-one-reference-each'] = True


def extra_evidence(ctx):
    return {'exhaustive': False}
