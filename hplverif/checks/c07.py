# C07 Parsing never fails in undocumented ways and parsers are stateless.

import re
import sys

from hypothesis import strategies as st
from hypothesis.stateful import RuleBasedStateMachine, initialize, rule

from hplverif import astx, core, gen, lib, mast
from hplverif.checks import c01, c18
from hplverif.core import Violation
from hplverif.tape import Chooser, from_tape

RULE = (
    'six input families, each through all five parser entry points: arbitrary Unicode text; random sequences over the HPL token vocabulary '
    '(keywords, operators, brackets, names, numbers such as 1e999 / 1. / .5, strings, @, #, stray characters); 1-2 token insertions, deletions, '
    'substitutions, duplications and swaps of valid renderings; syntactically valid but type-/sanity-chaotic generated texts; annotation faults '
    '(duplicate / unknown / misplaced keys) and faulty specification files; deep nesting up to depth 100 (parentheses, not, minus, calls, indices, '
    'field chains, sets). Oracle: the call returns an AST of the entry point\'s kind or raises HplSyntaxError, HplSanityError, TypeError, or '
    'ValueError when the text contains a call of a name that is not a built-in function; anything else is a violation bucketed by (exception type, '
    'innermost hpl frame). Statelessness: a rule-based state machine keeps one parser object per entry point, feeds it valid and invalid texts in '
    'any order and compares every outcome (AST equality and print, or exception class and message) with a fresh parser object; an order '
    'differential feeds sequences of up to 40 calls (texts derived from earlier ones: repeated, respelled, cut at an arbitrary character, one '
    'junk token inserted; annotated properties and files) to one set of parser objects in order and to another in reverse order and requires '
    'the same outcome for every call, attributing any mismatch with fresh parser objects. Non-trivial: the '
    'text got past the lexer (outcome other than an unexpected-character error); distinct by (entry point, text).'
)
ASSUMPTIONS = ['the interpreter recursion limit is held at the default (1000 frames above the call) while the library runs, so RecursionError within nesting depth 100 is reported']

KIND_CLASS = {
    'specification': 'HplSpecification',
    'property': 'HplProperty',
    'predicate': ('HplPredicateExpression', 'HplVacuousTruth', 'HplContradiction'),
    'condition': ('HplPredicateExpression', 'HplVacuousTruth', 'HplContradiction'),
    'expression': None,
}
CALL = re.compile(r'([A-Za-z_][A-Za-z0-9_]*)\s*\(')


def guarded_outcome(kind, text, p=None):
    """Outcome with the recursion limit at its default relative to this frame."""
    depth = 0
    f = sys._getframe()
    while f is not None:
        depth += 1
        f = f.f_back
    old = sys.getrecursionlimit()
    sys.setrecursionlimit(depth + 990)
    try:
        return lib.outcome(kind, text, p=p)
    finally:
        sys.setrecursionlimit(old)


def check_outcome(kind, text, k, r, inp):
    if k == 'ast':
        want = KIND_CLASS[kind]
        c = astx.cname(r)
        ok = getattr(r, 'is_expression', False) if want is None else (c == want if isinstance(want, str) else c in want)
        if not ok:
            raise Violation('parse', f'wrong-kind:{kind}:{c}', inp, f'{kind} parser returned a {c} for {text!r}')
        return 'accepted'
    if k in ('syntax', 'sanity', 'type'):
        if k == 'syntax' and 'No terminal matches' in str(r):
            return 'lexer-reject'
        return k + '-reject'
    if k == 'value':
        names = [m.group(1) for m in CALL.finditer(text)]
        if any(n not in mast.ALL_BUILTINS for n in names):
            return 'unknown-function'
        raise Violation('parse', f'ValueError:{core.innermost_hpl_frame(r)}', inp, f'{kind} parser raised ValueError without an unknown function in the text: {str(r)[:200]}\ntext: {text[:300]!r}')
    raise Violation(
        'parse', f'{type(r).__name__}:{core.innermost_hpl_frame(r)}', inp,
        f'{kind} parser leaked {type(r).__name__}: {str(r)[:300]}\ntext: {text[:400]!r}',
    )  # fmt: skip


def sub_parse(inp):
    """inp: {'kind', 'text'}"""
    k, r = guarded_outcome(inp['kind'], inp['text'])
    return check_outcome(inp['kind'], inp['text'], k, r, inp)


def _same_outcome(a, b):
    (k1, r1), (k2, r2) = a, b
    if k1 != k2:
        return False
    if k1 == 'ast':
        return r1 == r2 and str(r1) == str(r2) and _all_metadata(r1) == _all_metadata(r2)
    return type(r1) is type(r2) and _norm_msg(str(r1)) == _norm_msg(str(r2))


def _all_metadata(r):
    """Equality of ASTs ignores metadata: collect the annotations of the result (and of every property of a file)."""
    out = [dict(getattr(r, 'metadata', None) or {})]
    for p in getattr(r, 'properties', ()) or ():
        out.append(dict(getattr(p, 'metadata', None) or {}))
    return out


def _norm_msg(msg):
    """Lark lists the expected terminals from a set, in no particular order: compare them as a set."""
    lines = msg.split('\n')
    exp = sorted(l for l in lines if l.startswith('\t* '))
    return [l for l in lines if not l.startswith('\t* ')] + exp


def sub_sequence(inp):
    """inp: {'calls': [[kind, text], ...]}: one parser object per entry point vs fresh parsers."""
    parsers = {}
    done = []
    for kind, text in inp['calls']:
        if kind not in parsers:
            parsers[kind] = lib.fresh_parser(kind)
        got = guarded_outcome(kind, text, p=parsers[kind])
        ref = guarded_outcome(kind, text, p=lib.fresh_parser(kind))
        done.append([kind, text])
        if not _same_outcome(got, ref):
            raise Violation(
                'sequence', f'stateful:{kind}:{got[0]}/{ref[0]}', {'calls': done},
                f'after {len(done) - 1} earlier calls the {kind} parser object gives {got[0]} ({str(got[1])[:150]}) for {text[:200]!r}, a fresh parser gives {ref[0]} ({str(ref[1])[:150]})',
            )  # fmt: skip
    return len(done)


SUBS = {'parse': sub_parse, 'sequence': sub_sequence}

###############################################################################
# Input families
###############################################################################

VOCAB = (
    'globally', 'after', 'until', 'no', 'some', 'causes', 'requires', 'forbids', 'within', 'as', 'or', 'and', 'not', 'implies', 'iff', 'in',
    'to', 'forall', 'exists', 'True', 'False', 'PI', 'E', 'INF', 'NAN', 's', 'ms', 'hz', 'id', 'title', 'description',
    '(', ')', '{', '}', '[', ']', '![', ']!', ',', ':', '.', '#', '@', '@x', '@A.f', '=', '!=', '<', '<=', '>', '>=', '+', '-', '*', '/', '**',
    'x', 'y', 'xs', 'a', 'b', 'topic', '/ns/t', '~p', 'A', 'abs', 'len', 'foo', 'max', 'sum',
    '0', '1', '2', '10', '1.', '.5', '1e3', '1e999', '2.5e-3', '1e-999', '007', '0x10', '1_000',
    '"a"', '""', '"a\\"b"', '"unterminated', "'single'", '$', '%', '\\', '?', ';', '|', '&', '~', '^', 'é', '☃', '\x00', '\x7f',
)  # fmt: skip


def fam_tokens(ch):
    n = ch.int(1, 14)
    toks = [ch.pick(VOCAB) for _ in range(n)]
    sep = ch.pick([' ', ' ', '', '\n'])
    text = sep.join(toks)
    if ch.int(0, 3) == 0:
        text = ch.pick(['globally: ', '{', 'globally: no a {', '# id: p\n', 'after a: ']) + text + ch.pick(['', '}', ' }', ' within 1 s'])
    return text


def fam_nesting(ch):
    d = ch.int(1, 100)
    k = ch.int(0, 9)
    if k == 0:
        return '(' * d + 'x' + ')' * d + ' > 1'
    if k == 1:
        return 'not ' * d + 'p'
    if k == 2:
        return '- ' * d + 'x > 0'
    if k == 3:
        return 'abs(' * d + 'x' + ')' * d + ' > 0'
    if k == 4:
        return 'a[' * d + '0' + ']' * d + ' > 0'
    if k == 5:
        return 'a' + '.b' * d + ' > 0'
    if k == 6:
        return 'a' + '[0]' * d + ' = 1'
    if k == 7:
        return ' and '.join(['p'] * (d + 1))
    if k == 8:
        return ' + '.join(['x'] * (d + 1)) + ' > 0'
    return '(' * d + 'not (' * min(d, 30) + 'p' + ')' * min(d, 30) + ')' * d


REPEAT_UNITS = VOCAB + ('\\\\', '\\"', '\\n', '\\', 'a.', '.a', ' ', '\n', '# ', '""', '"a" ', 'x ', '1 ', '1.', 'e1', '--', '- ', 'a/', '/a', 'not ', '@', '..')
REPEAT_OPENERS = (
    '', '', '{', '{ x = "', '{ x = "a', 'x = "', '"', 'globally: no a { s = "', 'globally: no ', 'globally: no a or ', '# title: "', '# description: "a',
    '# id: ', '{ x > ', '{ f(', '{ x in {', '{ x in [', 'after ', 'globally: some a within ',
)  # fmt: skip
REPEAT_CLOSERS = ('', '', '', '"', '" }', '}', ' }', ')', '\n', '\nglobally: no a', ' s', '] }')


def fam_repeat(ch):
    """Long and flat: one short unit written many times, after an opener that may leave a string, an annotation, a
    bracket or a pattern open, and before a closer that may or may not fit. Nesting stays bounded (the units that open
    a bracket are repeated at most 100 times, as in fam_nesting); length does not."""
    n = ch.pick([ch.int(2, 40), ch.int(20, 100), ch.int(20, 100), ch.int(100, 600)])
    if ch.int(0, 2) == 0:
        # inside a string literal (the one token with an inner structure of its own: escapes), closed or not
        unit = ch.pick(['\\\\', '\\', '\\"', '\\n', '""', "'", 'a', '\\a', ' '])
        opener = ch.pick(['{ x = "', '{ x = "a', 'x = "', '"', 'globally: no a { s = "', '# title: "', '# id: p\n# description: "a', '{ f("'])
        return opener + unit * n + ch.pick(['', '', '"', '" }', '}', ' }', '\n', '\nglobally: no a', '")', 'a'])
    unit = ch.pick(REPEAT_UNITS)
    if unit.strip() in ('(', '[', '{', '![', 'abs', 'len', 'max', 'sum', 'foo', 'not', '-', '- ', '--', 'not '):
        n = min(n, 100)
    return ch.pick(REPEAT_OPENERS) + unit * n + ch.pick(REPEAT_CLOSERS)


def wrap_for(kind, text, ch):
    """Put an expression-level text into the syntactic context of an entry point."""
    if kind == 'predicate':
        return '{' + text + '}'
    if kind == 'property':
        return f'globally: no t {{{text}}}'
    if kind == 'specification':
        return f'# id: p1\nglobally: no t {{{text}}}\nafter a: some b'
    return text


STRAY = list(';$%&|~^?\\\'"`!<>=.,:#@()[]{}') + ['é', '☃', '\x00', '\t', '\n', ' ', '0', 'x', '_']


def fam_chars(ch):
    """A valid text with one or two character-level edits anywhere (also at the very beginning and end): the parser is
    left in every state it has, facing every kind of next character."""
    k2 = ch.pick(['property', 'property', 'predicate', 'condition', 'expression', 'specification'])
    if k2 == 'property':
        m, _ = gen.properties(ch, depth=ch.int(0, 2), wild_time=ch.bool())
    elif k2 == 'specification':
        m = ('spec', tuple(gen.properties(ch, depth=1)[0] for _ in range(ch.int(1, 2))))
    elif k2 == 'expression':
        m = gen.standalone_terms(ch, depth=ch.int(1, 3))[0]
    else:
        m = gen.standalone_predicates(ch, depth=ch.int(1, 3))[0]
    text = mast.render(('pred', m) if k2 == 'predicate' else m)
    for _ in range(ch.pick([1, 1, 1, 2])):
        op = ch.int(0, 5)
        pos = ch.pick([0, len(text), len(text), ch.int(0, len(text))])
        c = ch.pick(STRAY)
        if op <= 2 or not text:
            text = text[:pos] + c + text[pos:]
        elif op == 3:
            text = text[:max(0, pos - 1)] + text[pos:]
        elif op == 4:
            text = text[:max(0, pos - 1)] + c + text[pos:]
        else:
            text = text[:pos] + text[max(0, pos - 1):pos] + text[pos:]
    return k2, text


def fam_double_fault(ch):
    """A text with two faults of different kinds: a type or sanity error in an early part and a syntax error behind it.
    Which error surfaces depends on how far the parser gets - it must not depend on what the process did before."""
    first = ch.pick([
        'globally: no a {x + "s" > 1}', 'globally: no a {not 42}', 'globally: a as X causes b as X', 'globally: no (a or a)',
        'globally: no a {x > @Zq.x}', 'after p: no a {forall i in xs: x > 0}', 'globally: some a {len(1) > 0}',
    ])  # fmt: skip
    tail = ch.pick([' }', ' globally: no c', ' within', ' {', ' ;', ' within 1', ' or', ' # id: x'])
    k = ch.pick(['property', 'property', 'specification'])
    if ch.int(0, 3) == 0:
        pred = ch.pick(['not 42 }', 'x + "s" > 1 }}', '{x = "a" and x > 1} }', 'x > 1 and (y or 3))'])
        return ch.pick(['expression', 'condition', 'predicate']), pred
    return k, first + tail


def gen_case(ch):
    fam = ch.pick(['tokens', 'tokens', 'mutation', 'mutation', 'chaos', 'chaos', 'annotations', 'nesting', 'cross', 'chars', 'chars', 'double-fault', 'repeat'])
    if fam == 'repeat':
        return {'kind': ch.pick(lib.ENTRY_POINTS), 'text': fam_repeat(ch), 'family': fam}
    if fam == 'double-fault':
        k2, text = fam_double_fault(ch)
        return {'kind': k2, 'text': text, 'family': fam}
    if fam == 'chars':
        k2, text = fam_chars(ch)
        return {'kind': k2 if ch.int(0, 5) else ch.pick(lib.ENTRY_POINTS), 'text': text, 'family': fam}
    kind = ch.pick(lib.ENTRY_POINTS)
    if fam == 'tokens':
        return {'kind': kind, 'text': fam_tokens(ch), 'family': fam}
    if fam == 'mutation':
        c = c01.mutation_cases(ch)
        return {'kind': c['kind'] if ch.int(0, 3) else kind, 'text': c['text'], 'family': fam}
    if fam == 'chaos':
        chaos = ch.pick([10, 25, 50])
        k2 = ch.pick(['property', 'predicate', 'condition', 'expression', 'specification'])
        if k2 == 'property':
            m, _ = gen.properties(ch, depth=ch.int(1, 4), chaos=chaos)
        elif k2 == 'specification':
            m = ('spec', tuple(gen.properties(ch, depth=2, chaos=chaos)[0] for _ in range(ch.int(1, 3))))
        elif k2 == 'expression':
            m = gen.standalone_terms(ch, depth=ch.int(1, 5), chaos=chaos)[0]
        else:
            m = gen.standalone_predicates(ch, depth=ch.int(1, 5), chaos=chaos)[0]
        text = mast.render(('pred', m) if k2 == 'predicate' else m, gen.layouts(ch))
        return {'kind': k2 if ch.int(0, 4) else kind, 'text': text, 'family': fam}
    if fam == 'annotations':
        items = []
        for _ in range(ch.int(0, 5)):
            key = ch.pick(['id', 'title', 'description', 'id', 'title', 'description', 'title', 'author', 'Id'])
            if ch.int(0, 5) == 0:
                val = ch.pick(['p1', '"t"', '"d"', 'x', '""', '1', 'no'])  # any value, often of the wrong kind
            else:
                val = ch.pick(['p1', 'x', 'no', 'P_2']) if key.lower() == 'id' else ch.pick(['"t"', '"d"', '""', '"a # b"'])
            items.append(f'# {key}: {val}')
        body = ch.pick(['globally: no /a', 'after a as A: some b {x > @A.x} within 100 ms', 'globally: no', ''])
        text = ' '.join(items) + ' ' + body
        if ch.int(0, 3) == 0:
            text = c18.gen_fault(ch)['file']
        return {'kind': ch.pick(['property', 'specification', 'specification', kind]), 'text': text, 'family': fam}
    if fam == 'nesting':
        k2 = ch.pick(lib.ENTRY_POINTS)
        return {'kind': k2, 'text': wrap_for(k2, fam_nesting(ch), ch), 'family': fam}
    # cross: a text of one level given to the entry point of another
    m, _ = gen.properties(ch, depth=2)
    return {'kind': kind, 'text': mast.render(m), 'family': fam}


def shard(ctx, shard_no, nshards, n, n_text, n_seq):
    def body(inp):
        r = sub_parse(inp)
        ctx.case((inp['kind'], inp['text']), r != 'lexer-reject', f'{inp.get("family", "text")}:{r}', sample={'kind': inp['kind'], 'text': inp['text'][:200]})
        ctx.count('outcome:' + r)

    with ctx.timed('structured'):
        core.run_hypothesis(ctx, 'structured', from_tape(gen_case, 1024), body, n)
    with ctx.timed('unicode'):
        strat = st.tuples(st.sampled_from(lib.ENTRY_POINTS), st.text(max_size=60)).map(lambda t: {'kind': t[0], 'text': t[1], 'family': 'unicode'})
        core.run_hypothesis(ctx, 'unicode', strat, body, n_text)
        strat2 = st.tuples(
            st.sampled_from(lib.ENTRY_POINTS),
            st.text(alphabet=st.sampled_from(list('abxE01.{}()[]!=<>+-*/,:@#"\\ \n\t_~') + ['é', '\x00']), max_size=40),
        ).map(lambda t: {'kind': t[0], 'text': t[1], 'family': 'hpl-alphabet'})
        core.run_hypothesis(ctx, 'alphabet', strat2, body, n_text)
    with ctx.timed('stateless'):
        run_machine(ctx, shard_no, n_seq)
    with ctx.timed('order-differential'):
        run_order_differential(ctx, shard_no, n_seq + n_seq // 2)
    if shard_no == 0:
        with ctx.timed('fresh-process'):
            def body_fp(inp):
                r = sub_fresh_process(inp)
                ctx.case(('fresh', inp['kind'], inp['text']), True, 'fresh-process:' + r)

            def gen_fp(ch):
                if ch.int(0, 2) > 0:
                    k2, text = fam_double_fault(ch)
                    return {'kind': k2, 'text': text}
                c = gen_case(ch)
                return {'kind': c['kind'], 'text': c['text'].replace('\x00', ' ')}

            core.run_hypothesis(ctx, 'fresh', from_tape(gen_fp, 1024), body_fp, 24 if ctx.tier == 'quick' else 120, max_rounds=2)


NUM = re.compile(r'(?<![\w.@])(\d+)(\.\d*)?(?![\w.])')


def respell(text, x):
    """A text related to an earlier one: equal numbers spelled differently, other whitespace, other name case.

    Parsers that key any memory on a normalised form of what they saw are exposed by such neighbours.
    """
    mode = x % 4
    if mode == 0:
        def f(m):
            whole, frac = m.group(1), m.group(2)
            if frac is None:
                return [whole + '.0', whole + 'e0', whole + '.', '0' * 0 + whole][x // 4 % 4]
            if frac in ('.', '.0'):
                return whole
            return whole + frac + '0'
        return NUM.sub(f, text)
    if mode == 1:
        if x % 8 == 5:
            # whitespace changed only INSIDE string literals (another text with another meaning)
            return re.sub(r'"[^"\n]*"', lambda m: m.group(0).replace(' ', '  ') if ' ' in m.group(0) else m.group(0)[:-1] + ' "', text)
        return text.replace(' ', '  ').replace('{', '{ ').replace('}', ' }')
    if mode == 2:
        return text.replace('True', 'False') if 'True' in text else text.replace('<', '<=', 1)
    return text.upper() if x % 8 == 3 else text.replace(' and ', ' or ', 1)


def run_machine(ctx, shard_no, n_runs):
    from hypothesis import HealthCheck, seed, settings
    from hypothesis.stateful import run_state_machine_as_test

    last = {}

    class Machine(RuleBasedStateMachine):
        def __init__(self):
            super().__init__()
            self.parsers = {}
            self.calls = []

        @rule(tape=st.binary(min_size=1024, max_size=1024), reuse=st.integers(0, 4), which=st.integers(0, 63))
        def parse(self, tape, reuse, which):
            if reuse == 0 and self.calls:
                kind, text = self.calls[which % len(self.calls)]  # the same text again, later
                if which % 3 == 0:
                    kind = lib.ENTRY_POINTS[which % 5]
            elif reuse == 1 and self.calls:
                kind, text = self.calls[which % len(self.calls)]  # a close relative of an earlier text
                text = respell(text, which)
            else:
                c = gen_case(Chooser(tape))
                kind, text = c['kind'], c['text']
            if kind not in self.parsers:
                self.parsers[kind] = lib.fresh_parser(kind)
            got = guarded_outcome(kind, text, p=self.parsers[kind])
            ref = guarded_outcome(kind, text, p=lib.fresh_parser(kind))
            self.calls.append([kind, text])
            if not _same_outcome(got, ref):
                v = Violation(
                    'sequence', f'stateful:{kind}:{got[0]}/{ref[0]}', {'calls': list(self.calls)},
                    f'after {len(self.calls) - 1} earlier calls the {kind} parser object gives {got[0]} ({str(got[1])[:150]}) for {text[:200]!r}, a fresh parser gives {ref[0]} ({str(ref[1])[:150]})',
                )  # fmt: skip
                if not ctx.suppressed(v):
                    last['v'] = v
                    raise v

        def teardown(self):
            ctx.case(core.h64(repr(self.calls)), len(self.calls) >= 2, 'sequence', sample=[[k, t[:60]] for k, t in self.calls[:4]] if len(self.calls) >= 3 else None)
            ctx.count('sequence-calls', len(self.calls))

    for rnd in range(3):
        s = settings(max_examples=n_runs, stateful_step_count=30 if ctx.tier != 'quick' else 12, database=None, deadline=None,
                     report_multiple_bugs=False, suppress_health_check=list(HealthCheck), print_blob=False)  # fmt: skip
        M = seed(core.derive_seed(ctx.seed, 'C07', shard_no, rnd))(Machine)
        try:
            run_state_machine_as_test(M, settings=s)
        except Violation as v:
            ctx.report(v)
            continue
        except Exception as e:
            if core._is_flaky(e) and 'v' in last:
                ctx.report(last['v'])
                continue
            raise
        break


JUNK = ['#', '# id: q', '}', '{', ')', 'or', 'within', '@', ':', ',', 'no', '"', '1e999', 'as', '.', 'forall', '# title: "z"', '$']


def fam_annotated(ch):
    """Annotated properties and files, mostly valid (the family in which a parser object has the most to remember)."""
    props = []
    for i in range(ch.int(1, 3)):
        items = []
        keys = ch.sample(['id', 'title', 'description'], min_size=0, max_size=3)
        for key in keys:
            val = ch.pick(['p1', 'p2', 'x', 'P_2']) if key == 'id' else ch.pick(['"t"', '"d"', '""', '"a # b"', '"p1"', '"my title"', '"two  spaces"', '"a b c"', '"tab\there"'])
            items.append(f'# {key}: {val}')
        body = ch.pick(['globally: no /a', 'globally: no b {x > 1}', 'after a as A: some b {x > @A.x} within 100 ms',
                        'globally: a causes (b or c {y = 2.0})', 'until q {z in [1 to 2.5]}: b requires a within 1 s',
                        'globally: no b {s = "disk full" or s = "x\ty"}'])  # fmt: skip
        sep = ch.pick(['\n', '\n', ' ', '\n\n'])
        props.append(sep.join(items + [body]))
    return ch.pick(['\n', '\n\n', ' ']).join(props)


def derive_text(ch, calls):
    """The next text of a call sequence, often derived from an earlier one: the same again, a respelling, a prefix cut
    at an arbitrary character (a syntax error at an arbitrary parser state), or one junk token inserted anywhere."""
    mode = ch.int(0, 13)
    if calls and mode <= 6:
        kind, text = calls[ch.int(0, len(calls) - 1)]
        if mode == 0:
            return kind, text
        if mode == 1:
            return kind, respell(text, 4 * ch.int(0, 15))  # equal numbers spelled differently
        if mode == 2:
            return kind, respell(text, 1)  # other whitespace between tokens
        if mode == 3:
            return kind, respell(text, 5)  # other whitespace INSIDE string literals
        if mode in (4, 5) and len(text) > 2:
            return kind, text[: ch.int(1, len(text) - 1)]
        pos = ch.int(0, len(text))
        while 0 < pos < len(text) and not text[pos - 1].isspace():
            pos -= 1
        return kind, text[:pos] + ch.pick(JUNK) + ' ' + text[pos:]
    if mode <= 10:
        return ch.pick(['property', 'specification', 'specification']), fam_annotated(ch)
    c = gen_case(ch)
    return c['kind'], c['text']


def build_sequence(ints):
    import random

    calls = []
    kinds = None
    for x in ints:
        ch = Chooser(random.Random(x).randbytes(1024))
        if kinds is None:
            kinds = []
        kind, text = derive_text(ch, calls)
        if kind not in kinds:
            if len(kinds) < 3:
                kinds.append(kind)  # at most three entry points per sequence (parser objects are expensive to create)
            else:
                kind = kinds[ch.int(0, 2)]
        calls.append([kind, text])
    # epilogue: close relatives of up to four earlier texts, one per kind of relation (a parser that remembers anything
    # under a normalised key - numbers, whitespace, whitespace inside strings - answers one of them from memory)
    if ints:
        ch = Chooser(random.Random(ints[0] ^ 0x5EED).randbytes(64))
        base = list(calls)
        spaced = re.compile(r'"[^"\n]* [^"\n]*"')
        for x, applies in ((0, lambda t: NUM.search(t)), (1, lambda t: ' ' in t), (5, lambda t: spaced.search(t))):
            cands = [c for c in base if applies(c[1]) and respell(c[1], x) != c[1]]
            for _ in range(min(3, len(cands))):
                kind, text = cands.pop(ch.int(0, len(cands) - 1))
                calls.append([kind, respell(text, x)])
    return calls


def sub_order(inp):
    """inp: {'calls': [[kind, text], ...]}. Order differential: one set of parser objects sees the calls in the given
    order, another one in reverse order; a stateless parser gives every call the same outcome in both. A mismatch is
    then attributed with fresh parser objects (sub_sequence) so that the reported sequence is self-contained."""
    calls = inp['calls']
    fwd, bwd = {}, {}
    out_f = []
    for kind, text in calls:
        if kind not in fwd:
            fwd[kind] = lib.fresh_parser(kind)
        out_f.append(guarded_outcome(kind, text, p=fwd[kind]))
    out_b = [None] * len(calls)
    for i in range(len(calls) - 1, -1, -1):
        kind, text = calls[i]
        if kind not in bwd:
            bwd[kind] = lib.fresh_parser(kind)
        out_b[i] = guarded_outcome(kind, text, p=bwd[kind])
    for i, (a, b) in enumerate(zip(out_f, out_b)):
        if not _same_outcome(a, b):
            sub_sequence({'calls': calls[: i + 1]})
            sub_sequence({'calls': list(reversed(calls[i:]))})
            kind, text = calls[i]
            raise Violation(
                'order', f'order:{kind}:{a[0]}/{b[0]}', inp,
                f'call {i} ({kind}, {text[:200]!r}) gives {a[0]} ({str(a[1])[:150]}) after the calls before it and {b[0]} ({str(b[1])[:150]}) after the calls behind it (in reverse order)',
            )  # fmt: skip
    # the last call of each order against a parser object that has seen nothing
    for order, got in ((calls, out_f[-1]), (list(reversed(calls)), out_b[0])):
        kind, text = order[-1]
        ref = guarded_outcome(kind, text, p=lib.fresh_parser(kind))
        if not _same_outcome(got, ref):
            sub_sequence({'calls': order})
            raise Violation('order', f'order-last:{kind}:{got[0]}/{ref[0]}', {'calls': order}, f'after {len(order) - 1} earlier calls the {kind} parser gives {got[0]} for {text[:200]!r}, a fresh one {ref[0]}')
    return len(calls)


SUBS['order'] = sub_order

_FRESH = r"""
import sys, json
sys.path.insert(0, sys.argv[1])
from hpl import parser as hp
from hpl.errors import HplSanityError, HplSyntaxError
kind, text = sys.argv[2], sys.stdin.read()
mk = {'specification': hp.specification_parser, 'property': hp.property_parser, 'predicate': hp.predicate_parser,
      'condition': hp.condition_parser, 'expression': hp.expression_parser}[kind]
try:
    r = mk().parse(text)
    out = ('ast', str(r))
except HplSyntaxError as e:
    out = ('syntax', '')
except HplSanityError as e:
    out = ('sanity', '')
except TypeError as e:
    out = ('type', '')
except ValueError as e:
    out = ('value', '')
except Exception as e:
    out = ('other', type(e).__name__)
print(json.dumps(out))
"""


def sub_fresh_process(inp):
    """inp: {'kind', 'text'}: the outcome in this long-lived process (every entry point in use, thousands of texts parsed)
    against the outcome in a brand-new interpreter that creates one parser and parses only this text."""
    import json
    import os
    import subprocess

    kind, text = inp['kind'], inp['text']
    k, r = guarded_outcome(kind, text, p=lib.fresh_parser(kind))
    here = (k if k in ('ast', 'syntax', 'sanity', 'type', 'value') else 'other', str(r) if k == 'ast' else '')
    env = dict(os.environ, PYTHONHASHSEED='0')
    p = subprocess.run([sys.executable, '-c', _FRESH, os.path.join(core.REPO_DIR, 'src'), kind], input=text.encode('utf-8', 'surrogatepass'), capture_output=True, env=env, timeout=120)
    if p.returncode != 0:
        raise core.HarnessError(f'fresh interpreter failed: {p.stderr.decode(errors="replace")[-300:]}')
    there = tuple(json.loads(p.stdout.decode()))
    if here[0] != there[0] or (here[0] == 'ast' and here[1] != there[1]):
        raise Violation('fresh_process', f'process-history:{kind}:{here[0]}/{there[0]}', inp, f'the {kind} parser gives {here[0]} for {text[:200]!r} in this process (all entry points in use) and {there[0]} in a new interpreter that only parses this text')
    return here[0]


SUBS['fresh_process'] = sub_fresh_process


def run_order_differential(ctx, shard_no, n_runs):
    def body(ints):
        calls = build_sequence(ints)
        sub_order({'calls': calls})
        ctx.case(core.h64(repr(calls)), len(calls) >= 2, 'order-differential', sample=[[k, t[:60]] for k, t in calls[:4]] if len(calls) >= 3 else None)
        ctx.count('order-differential-calls', len(calls))

    strat = st.lists(st.integers(0, 2**32 - 1), min_size=6, max_size=40)
    core.run_hypothesis(ctx, 'order', strat, body, n_runs)


def atheris_campaigns(ctx, n_procs, runs):
    """Coverage-guided complement (thorough tier): atheris/libFuzzer over token-index inputs, same oracle."""
    import json
    import os
    import subprocess
    import tempfile

    deps = os.path.join(core.VERIF_DIR, '.deps')
    env = dict(os.environ, PYTHONHASHSEED='0', PYTHONPATH=os.pathsep.join([core.VERIF_DIR, deps]))
    probe = subprocess.run([sys.executable, '-c', 'import atheris'], env=env, capture_output=True)
    if probe.returncode != 0:
        ctx.note('atheris is not importable (python -m hplverif.setup installs it from the local wheelhouse): coverage-guided campaign skipped')
        return
    vocab = list(VOCAB) + ['globally: no a {', '}', ' within 1 s', '# id: p ', 'forall i in xs: @i', '(a or b)', 'x > 0']
    seeds = [
        [1, 'globally: no a {', 'x > 0', '}'],
        [1, 'globally', ':', 'a', 'causes', 'b', ' within 1 s'],
        [2, '{', 'forall i in xs: @i', 'and', 'x', 'in', '[', '0', 'to', '1', ']', '}'],
        [0, '# id: p ', 'globally', ':', 'no', '(a or b)'],
        [4, 'abs', '(', 'x', ')', '+', 'len', '(', 'xs', ')'],
    ]
    with tempfile.TemporaryDirectory(prefix='hplverif-c07-') as d:
        procs = []
        for i in range(n_procs):
            corpus = os.path.join(d, f'corpus{i}')
            os.makedirs(corpus)
            if i % 2 == 1:  # every other campaign starts from a few valid token sequences, the others from nothing
                for j, sd in enumerate(seeds):
                    with open(os.path.join(corpus, f'seed{j}'), 'wb') as f:
                        f.write(bytes([sd[0]] + [vocab.index(t) for t in sd[1:]]))
            findings = os.path.join(d, f'findings{i}.jsonl')
            cmd = [sys.executable, '-m', 'hplverif.fuzz_c07', str(runs), str(core.derive_seed(ctx.seed, 'atheris', i) % (2**31 - 1) + 1), corpus, findings]
            procs.append((subprocess.Popen(cmd, cwd=core.VERIF_DIR, env=dict(env, HPL_REPO_DIR=core.REPO_DIR), stdout=subprocess.DEVNULL, stderr=subprocess.DEVNULL), findings, corpus))
        for p, findings, corpus in procs:
            try:
                p.wait(timeout=3600)
            except subprocess.TimeoutExpired:
                p.kill()
                ctx.note('an atheris campaign hit its wall-clock budget: inconclusive on the rest')
            if os.path.exists(findings + '.stats'):
                with open(findings + '.stats') as f:
                    stats = json.load(f)
                ctx.evaluations += stats['execs']
                ctx.count('atheris:execs', stats['execs'])
                ctx.count('atheris:beyond-lexer', stats['beyond_lexer'])
                ctx.count('atheris:accepted', stats['accepted'])
                ctx.count('atheris:corpus-entries', len(os.listdir(corpus)))
            if os.path.exists(findings):
                with open(findings) as f:
                    for line in f:
                        rec = json.loads(line)
                        ctx.report(Violation('parse', rec['sig'], rec['input'], rec['message'] + '\n(found by the atheris campaign)'))


def run(ctx):
    if ctx.tier == 'quick':
        core.run_sharded(ctx, __name__, 'shard', 4, (450, 250, 8))
    else:
        core.run_sharded(ctx, __name__, 'shard', getattr(ctx, 'shards_override', None) or 16, (20000, 10000, 60))
        with ctx.timed('atheris'):
            atheris_campaigns(ctx, 8, 400000)


def extra_evidence(ctx):
    beyond = sum(v for k, v in ctx.counts.items() if k.startswith('outcome:') and k != 'outcome:lexer-reject')
    total = sum(v for k, v in ctx.counts.items() if k.startswith('outcome:'))
    return {'fraction_beyond_lexer': round(beyond / total, 3) if total else 0.0}
