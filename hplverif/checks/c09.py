# C09 split_and returns an equivalent list of indivisible conjuncts.

from hplverif import astx, core, ev, lib, sem
from hplverif.core import Violation
from hplverif.tape import from_tape

RULE = (
    'boolean type-directed terms (random to depth 5, as predicates and as expressions) and the boolean part of the '
    'small grammar (propositional depth 2, both quantifiers over array/set/range domains, negations and connectives '
    'around them) are passed to split_and; the conjunction of the parts is evaluated with the reference evaluator on a '
    'valuation grid that always includes the empty array, and must equal the input wherever the input is defined; each '
    'part must be boolean and must not be a conjunction, a negated disjunction/implication/negation/existential or a '
    'universal over a conjunction (own shape predicate); ValueError only with a literal False conjunct and an input that '
    'is false on the whole grid. Non-trivial: >= 2 parts, or a quantifier, or a negation that had to be pushed; distinct by text.'
)
ASSUMPTIONS = ['hplverif/ev.py is the meaning of expressions; undefined/ambiguous valuations are skipped and counted']


def _split_and():
    from hpl.rewrite import split_and

    return split_and


def divisible(model):
    """Own shape predicate: why a returned part is still divisible (None when it is not)."""
    k = model[0]
    if k == 'bin' and model[1] == 'and':
        return 'a conjunction'
    if k == 'un' and model[1] == 'not':
        x = model[2]
        if x[0] == 'bin' and x[1] == 'or':
            return 'a negated disjunction'
        if x[0] == 'bin' and x[1] == 'implies':
            return 'a negated implication'
        if x[0] == 'un' and x[1] == 'not':
            return 'a double negation'
        if x[0] == 'q' and x[1] == 'exists':
            return 'a negated existential quantifier'
    if k == 'q' and model[1] == 'forall':
        b = model[4]
        if b[0] == 'bin' and b[1] == 'and':
            return 'a universal quantifier over a conjunction'
    return None


def _has_literal_false(model):
    return any(n == ('lit', 'bool', False) for n in ev._walk(model))


def check_case(inp, limit=64, stats=None):
    a = sem.parse_case(inp)
    if a is None:
        return 'rejected-by-parser'
    model = astx.to_model(a)
    text = inp['text']
    st, parts = core.guarded(_split_and(), a)
    envs = None
    if st == 'exc':
        if isinstance(parts, ValueError) and not isinstance(parts, (TypeError,)):
            envs = sem.envs_for(model, inp, limit)
            if not _has_literal_false(model):
                raise Violation('split_and', 'valueerror-without-false', inp, f'split_and({text!r}) raised ValueError without a literal False in the input')
            for e in envs:
                s0, v0 = ev.try_ev(model, e)
                if s0 == 'ok' and v0 is True:
                    raise Violation('split_and', 'valueerror-satisfiable', inp, f'split_and({text!r}) reports unsatisfiable, but the input holds for this={e.this} vars={e.vars}')
            return 'unsatisfiable'
        raise Violation('split_and', f'raises:{core.exc_sig(parts)}', inp, f'split_and({text!r}) raised {type(parts).__name__}: {str(parts)[:300]}')
    if not isinstance(parts, list):
        raise Violation('split_and', 'kind', inp, f'split_and returned {type(parts).__name__}')
    pmodels = []
    for p in parts:
        if not getattr(p, 'is_expression', False):
            raise Violation('split_and', 'kind', inp, f'split_and({text!r}) returned a {type(p).__name__}')
        # exactly boolean; a bare reference given as an (untyped) expression can only be required to admit boolean
        exact = getattr(a, 'is_predicate', False) or a.data_type.value == 1
        if (p.data_type.value != 1) if exact else (not p.data_type.can_be_bool):
            raise Violation('split_and', 'part-not-boolean', inp, f'part {p} of split_and({text!r}) has type {p.data_type}')
        pm = astx.to_model(p)
        why = divisible(pm)
        if why:
            raise Violation('split_and', f'divisible:{why}', inp, f'split_and({text!r}) returned {why}: {p}')
        pmodels.append(pm)
    envs = sem.envs_for(model, inp, limit, extra=pmodels)
    defined = 0
    for e in envs:
        s0, v0 = ev.try_ev(model, e)
        if stats is not None:
            stats['val:' + s0] = stats.get('val:' + s0, 0) + 1
        if s0 != 'ok':
            continue
        # conjunction of the parts with the evaluator's own (order-independent, three-valued) 'and'
        conj = ('lit', 'bool', True)
        for pm in pmodels:
            conj = ('bin', 'and', conj, pm)
        s1, v1 = ev.try_ev(conj, e)
        if s1 in ('ambig', 'illcond'):
            continue
        defined += 1
        if s1 == 'undef':
            raise Violation(
                'split_and', f'introduces-undefined:{sem.shape(model)}', inp,
                f'the conjunction of the parts of split_and({text!r}) is undefined ({v1}) where the input is {v0}\nparts: {[str(p) for p in parts]}\nvaluation: this={e.this} vars={e.vars}',
            )  # fmt: skip
        if v1 != v0:
            raise Violation(
                'split_and', f'value:{sem.shape(model)}', inp,
                f'conjunction of the parts is {v1} but the input is {v0}\ninput: {a}\nparts: {[str(p) for p in parts]}\nvaluation: this={e.this} vars={e.vars}',
            )  # fmt: skip
    pushed = any(n[0] == 'q' or (n[0] == 'un' and n[1] == 'not' and n[2][0] in ('bin', 'un', 'q')) for n in ev._walk(model))
    if defined and (len(parts) >= 2 or pushed):
        return 'split' if len(parts) >= 2 else 'pushed'
    return 'plain' if defined else 'never-defined'


def sub_split_and(inp):
    return check_case(inp, limit=256)


SUBS = {'split_and': sub_split_and}


def shard(ctx, shard_no, nshards, n_random, stride):
    limit = sem.limit_for(ctx.tier)
    stats = {}

    def body(inp):
        r = check_case(inp, limit=limit, stats=stats)
        ctx.case(sem.case_key(inp), r in ('split', 'pushed'), ('derived-input:' if inp.get('pre') else 'random:') + r, sample=inp['text'] if r in ('split', 'pushed') else None)

    with ctx.timed('random'):
        core.run_hypothesis(ctx, 'random', from_tape(sem.random_bool_case), body, n_random)
    with ctx.timed('small'):
        for name, inp in sem.small_cases(ctx.seed, stride, shard_no, nshards, quant_stride=max(1, stride // 8)):
            try:
                r = check_case(inp, limit=limit, stats=stats)
            except Violation as v:
                ctx.report(v)
                r = 'violation'
            ctx.case(inp['text'], r in ('split', 'pushed'), f'small:{name}:{r}', sample=inp['text'] if r == 'split' else None)
    for k, v in stats.items():
        ctx.count(k, v)


def run(ctx):
    if ctx.tier == 'quick':
        core.run_sharded(ctx, __name__, 'shard', 4, (450, 20))
    else:
        core.run_sharded(ctx, __name__, 'shard', getattr(ctx, 'shards_override', None) or 16, (12000, 1))
        ctx.exhaustive['small-grammar-boolean-part'] = True
        with ctx.timed('atheris'):
            from hplverif import fuzz

            fuzz.tape_campaigns(ctx, 'C09', 8, 60000)



def extra_evidence(ctx):
    return {'exhaustive': False}
