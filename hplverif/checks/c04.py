# C04 Well-typed specifications are never rejected.

from hplverif import astx, core, gen, lib, mast, typesig, typetok
from hplverif.core import Violation
from hplverif.tape import from_tape

RULE = (
    'a message schema is drawn per topic (booleans, the ten numeric tokens, strings, fixed and variable arrays of primitives and of messages, '
    'nested messages, constants); properties of every scope/pattern shape are generated type-directedly from the schemas (own fields, fields of '
    'aliases bound earlier incl. the own alias, quantified variables over arrays / sets / ranges, literal indices within the bounds of fixed arrays, '
    'every reachable built-in at an admissible argument type), as are stand-alone predicates; oracle: (1) the parser accepts the text, (2) for every '
    'reference node the inferred type set contains the schema type of the field it names (own resolver over the schema), (3) '
    'property.type_check_references(schema tokens) returns. Non-trivial: >= 2 references, a reference used twice, a quantifier or an alias reference; distinct by text.'
)
ASSUMPTIONS = [
    'generated terms use every operator/function according to hplverif/typesig.py; quantifiers range over primitive-element collections only (the code fixes the variable to primitive types)',
    'sibling quantifiers that reuse a variable name at different element types (finding F12, repaired) are generated freely and as a labelled family',
]


def elem_mask_of_domain(dom, this_schema, alias_schemas, qvars):
    c = astx.cname(dom)
    if c == 'HplRange':
        return typesig.N
    if c == 'HplSet':
        m = 0
        for v in dom.values:
            m |= expected_mask(v, this_schema, alias_schemas, qvars)
        return m
    ft = typesig.resolve(astx.to_model(dom), this_schema, alias_schemas, qvars_codes(qvars))
    if ft[0] != 'arr':
        raise typesig.Unresolved('quantifier domain is not an array')
    return typesig.ftype_mask(ft[1])


def qvars_codes(qvars):
    return {k: {typesig.B: 'B', typesig.N: 'N', typesig.S: 'S'}.get(v, 'N') for k, v in qvars.items()}


def expected_mask(node, this_schema, alias_schemas, qvars):
    """Definite type of an expression node by its syntactic kind / the schema (0 when unknown)."""
    c = astx.cname(node)
    if c == 'HplLiteral':
        v = node.value
        return typesig.B if isinstance(v, bool) else (typesig.S if isinstance(v, str) else typesig.N)
    if c in ('HplFieldAccess', 'HplArrayAccess', 'HplVarReference'):
        try:
            return typesig.ftype_mask(typesig.resolve(astx.to_model(node), this_schema, alias_schemas, qvars_codes(qvars)))
        except typesig.Unresolved:
            return 0
    return node.data_type.value


def check_reference_types(pred, this_schema, alias_schemas, where, inp, sub='predicate'):
    """(2): every reference node's inferred type set contains the declared type of what it names."""
    n_refs = [0]

    def rec(n, qvars):
        c = astx.cname(n)
        if c == 'HplQuantifier':
            rec(n.domain, qvars)
            try:
                em = elem_mask_of_domain(n.domain, this_schema, alias_schemas, qvars)
            except typesig.Unresolved as e:
                raise core.HarnessError(f'generator produced an unresolvable domain {n.domain}: {e}')
            rec(n.condition, dict(qvars, **{n.variable: em}))
            return
        if c in ('HplFieldAccess', 'HplArrayAccess', 'HplVarReference'):
            model = astx.to_model(n)
            if c == 'HplVarReference' and n.token[1:] in qvars:
                want = qvars[n.token[1:]]
            else:
                try:
                    want = typesig.ftype_mask(typesig.resolve(model, this_schema, alias_schemas, qvars_codes(qvars)))
                except typesig.Unresolved as e:
                    raise core.HarnessError(f'generator produced an unresolvable reference {n} in {where}: {e}')
            n_refs[0] += 1
            if not (n.data_type.value & want):
                raise Violation(
                    sub, f'reference-type:{typesig.mask_name(want)}', inp,
                    f'{where}: the reference {n} is declared {typesig.mask_name(want)} in the schema, but its inferred type set is {typesig.mask_name(n.data_type.value)}',
                )  # fmt: skip
        for k in astx.kids(n):
            rec(k, qvars)

    rec(pred, {})
    return n_refs[0]


def _nontrivial(m):
    refs = [n for n in mast.walk(m) if n[0] in ('field', 'var')]
    keys = [repr(r) for r in refs]
    return len(refs) >= 2 or len(set(keys)) < len(keys) or any(n[0] == 'q' for n in mast.walk(m))


def sub_property(inp):
    """inp: {'m': property model, 'topics': {topic: schema}, 'aliases': {alias: topic}}"""
    m = inp['m']
    text = mast.render(m)
    k, p = lib.outcome('property', text)
    if k != 'ast':
        raise Violation(
            'property', f'rejected:{k}:{type(p).__name__}', dict(inp, text=text),
            f'a property that is well-typed under its schema is rejected with {type(p).__name__}: {str(p)[:300]}\ntext: {text!r}',
        )  # fmt: skip
    topics = inp['topics']
    alias_topic = inp['aliases']
    alias_schemas = {a: topics[t] for a, t in alias_topic.items()}
    nrefs = 0
    for evn in (p.scope.activator, p.scope.terminator, p.pattern.trigger, p.pattern.behaviour):
        for se in astx.flat_events(evn):
            if astx.cname(se.predicate) == 'HplPredicateExpression':
                nrefs += check_reference_types(se.predicate.expression, topics[se.name], alias_schemas, f'event {se.name} of {text!r}', dict(inp, text=text), sub='property')
    tokens = {t: typetok.message(sc, 'T' + str(i)) for i, (t, sc) in enumerate(sorted(topics.items()))}
    types = dict(tokens)
    for a, t in alias_topic.items():
        types[a] = tokens[t]
    st, r = core.guarded(p.type_check_references, types)
    if st == 'exc':
        raise Violation(
            'property', f'schema-check:{core.exc_sig(r)}', dict(inp, text=text),
            f'type_check_references rejects a property that is well-typed under the schema: {type(r).__name__}: {str(r)[:300]}\ntext: {text!r}',
        )  # fmt: skip
    return nrefs


def sub_predicate(inp):
    """inp: {'kind': predicate|condition|expression, 'm': condition model, 'this': schema, 'aliases': {alias: schema}}"""
    m = inp['m']
    kind = inp['kind']
    text = mast.render(('pred', m) if kind == 'predicate' else m)
    for t in inp.get('before', ()):
        lib.outcome(kind, t)  # history: texts parsed (and rejected) just before; their outcome is not judged here
    k, a = lib.outcome(kind, text)
    if k != 'ast':
        raise Violation(
            'predicate', f'rejected:{k}:{type(a).__name__}', dict(inp, text=text),
            f'a {kind} that is well-typed under its schema is rejected with {type(a).__name__}: {str(a)[:300]}\ntext: {text!r}',
        )  # fmt: skip
    if astx.cname(a) in ('HplVacuousTruth', 'HplContradiction'):
        return 0
    root = a.expression if astx.cname(a) == 'HplPredicateExpression' else a
    n = check_reference_types(root, inp['this'], inp['aliases'], repr(text), dict(inp, text=text))
    this_tok = typetok.message(inp['this'], 'This')
    var_toks = {al: typetok.message(sc, 'A_' + al) for al, sc in inp['aliases'].items()}
    st, r = core.guarded(a.type_check_references, this_tok, var_toks)
    if st == 'exc':
        raise Violation('predicate', f'schema-check:{core.exc_sig(r)}', dict(inp, text=text), f'type_check_references rejects the well-typed {kind} {text!r}: {type(r).__name__}: {str(r)[:300]}')
    return n


SUBS = {'property': sub_property, 'predicate': sub_predicate}


def _alias_topics(m, info):
    """alias -> topic, recovered from the model tree."""
    return mast.alias_topics(m)


def gen_property(ch, allow_f12=False):
    m, info = gen.properties(ch, depth=ch.int(1, 4), meta=False)
    return {'m': m, 'topics': info['topics'], 'aliases': _alias_topics(m, info)}


def gen_predicate(ch):
    kind = ch.pick(['predicate', 'condition', 'expression'])
    depth = ch.int(1, 5)
    if kind == 'expression':
        m, T, schema, aliases = gen.standalone_terms(ch, depth=depth)
    else:
        m, schema, aliases = gen.standalone_predicates(ch, depth=depth)
    inp = {'kind': kind, 'm': m, 'this': schema, 'aliases': aliases}
    if kind != 'expression' and ch.int(0, 2) == 0:
        # an ill-typed relative first (one reference used at a type its other uses exclude; sometimes with more of the
        # predicate behind the clash): rejected, and then the well-typed predicate must still be accepted
        from hplverif.checks import c05

        req = {r: mk for r, mk in c05.required_masks(m).items() if mk and mk != c05.REF_KIND_MASK}
        cands = [(r, mk) for r, mk in sorted(req.items(), key=repr) if any(not (u & mk) for u in c05.USES)]
        if cands:
            ref, mk = ch.pick(cands)
            use = c05.USES[ch.pick([u for u in sorted(c05.USES) if not (u & mk)])](ref)
            bad = mast.binop('and', use, m) if ch.bool() else mast.binop('and', mast.binop('and', m, use), m)
            inp['before'] = [mast.render(('pred', bad) if kind == 'predicate' else bad)]
        if ch.bool():
            # ... or an ill-typed relative of ANOTHER predicate over the same small pool of field names (other schema, so
            # the same names at other types), the clash in front of the rest
            m2, _schema2, _aliases2 = gen.standalone_predicates(ch, depth=ch.int(2, 3))
            req2 = {r: mk for r, mk in c05.required_masks(m2).items() if mk and mk != c05.REF_KIND_MASK}
            cands2 = [(r, mk) for r, mk in sorted(req2.items(), key=repr) if any(not (u & mk) for u in c05.USES)]
            if cands2:
                ref, mk = ch.pick(cands2)
                use = c05.USES[ch.pick([u for u in sorted(c05.USES) if not (u & mk)])](ref)
                bad2 = mast.binop('and', mast.binop('and', use, ref if mk == c05.B else use), m2)
                inp['before'] = inp.get('before', []) + [mast.render(('pred', bad2) if kind == 'predicate' else bad2)]
    return inp


def gen_f12(ch):
    """Sibling quantifiers that reuse a variable name at different element types (finding F12)."""
    schema = gen.schemas(ch, depth=1)
    env = gen.Env(schema, {}, allow_f12=True)
    parts = []
    for T in ch.sample(['N', 'B', 'S'], min_size=2, max_size=2):
        dom = gen.compound(ch, env, T, 1)
        inner = env.with_qvar('i', T)
        parts.append(('q', ch.pick(['forall', 'exists']), 'i', dom, gen.atom_using(ch, inner, 'i', T, 1)))
    m = mast.binop(ch.pick(['and', 'or', 'implies']), parts[0], parts[1])
    return {'kind': 'predicate', 'm': m, 'this': schema, 'aliases': {}, 'f12_family': True}


def shard(ctx, shard_no, nshards, n):
    def body_p(inp):
        nrefs = sub_property(inp)
        text = mast.render(inp['m'])
        ctx.case(text, _nontrivial(inp['m']), 'property', sample=text)
        ctx.count('references-checked', nrefs)

    with ctx.timed('properties'):
        core.run_hypothesis(ctx, 'property', from_tape(gen_property), body_p, n)

    def body_e(inp):
        nrefs = sub_predicate(inp)
        text = mast.render(inp['m'])
        ctx.case(text, _nontrivial(inp['m']), inp['kind'], sample=text)
        ctx.count('references-checked', nrefs)

    with ctx.timed('predicates'):
        core.run_hypothesis(ctx, 'predicate', from_tape(gen_predicate), body_e, n)

    def body_f12(inp):
        text = mast.render(inp['m'])
        try:
            sub_predicate(inp)
            r = 'accepted'
        except Violation as v:
            if not ctx.suppressed(v):
                raise
            r = 'known-finding'
        ctx.case(text, True, 'sibling-binders-family:' + r, sample=text)

    with ctx.timed('f12-family'):
        core.run_hypothesis(ctx, 'f12', from_tape(gen_f12), body_f12, 60)


def run(ctx):
    if ctx.tier == 'quick':
        core.run_sharded(ctx, __name__, 'shard', 1, (1500,))
    else:
        core.run_sharded(ctx, __name__, 'shard', getattr(ctx, 'shards_override', None) or 16, (25000,))
