# C14 Rewriting functions are total on valid inputs.

import itertools

from hplverif import astx, core, ev, gen, lib, mast, sem, values
from hplverif.checks import c08, c13
from hplverif.core import Violation
from hplverif.mast import binop, own
from hplverif.tape import from_tape

RULE = (
    'every AST the parser accepts from type-directed and type-chaotic generated texts (predicates, expressions, '
    'properties of every scope/pattern/width), plus a systematic table (every built-in function x every argument shape: '
    'number/string/boolean literal, own field, alias field, set of literals, set with references, range with literal and '
    'with non-literal bounds, nested call, arithmetic; comparisons whose left operand starts with a literal) is passed to '
    'simplify, split_and, refactor_reference (every alias + an absent one), replace_this_with_var, replace_var_with_this, '
    'get_conjuncts, get_disjuncts and (properties) canonical_form; each must return the documented kind. Allowed exceptions '
    'only: simplify on an undefined constant sub-term / identically-zero divisor, split_and\'s ValueError with a literal False, '
    'TypeError of a replacement on a predicate when two references of disjoint types coincide. Failures are bucketed by '
    '(function, exception type, innermost hpl frame). Non-trivial: the input has a function call, a quantifier or >= 3 operators; distinct by text.'
)
ASSUMPTIONS = ['aliases captured by a quantifier are excluded from the replacement functions (as the property states)']


def _nontrivial(model):
    ops = 0
    for n in ev._walk(model):
        if n[0] in ('call', 'calln', 'q'):
            return True
        if n[0] in ('bin', 'un'):
            ops += 1
    return ops >= 3


def _kind_ok(a, r, what, inp, fn, sub='expr'):
    pred = bool(getattr(a, 'is_predicate', False))
    if what == 'same':
        ok = bool(getattr(r, 'is_predicate', False)) == pred and (pred or getattr(r, 'is_expression', False))
        if ok and not pred and r.data_type != a.data_type and fn == 'simplify':
            raise Violation(sub, f'{fn}:type-changed', inp, f'{fn} changed the type {a.data_type} -> {r.data_type} of {a}')
    elif what == 'list-expr':
        ok = isinstance(r, list) and all(getattr(x, 'is_expression', False) for x in r)
    elif what == 'pair':
        ok = isinstance(r, tuple) and len(r) == 2 and all(bool(getattr(x, 'is_predicate', False)) == pred and (pred or getattr(x, 'is_expression', False)) for x in r)
    else:
        raise ValueError(what)
    if not ok:
        raise Violation(sub, f'{fn}:kind', inp, f'{fn}({a}) returned {r!r}'[:400])


def check_expr_functions(a, inp, stats=None, sub='expr', vinp=None):
    """Apply every expression/predicate-level rewriting function to AST a."""
    from hpl import rewrite as rw

    model = astx.to_model(a)
    pred = bool(getattr(a, 'is_predicate', False))
    text = inp.get('text')
    vinp = vinp if vinp is not None else inp  # what a replay of `sub` needs

    def fail(fn, exc):
        raise Violation(sub, f'{fn}:{core.exc_sig(exc)}', vinp, f'{fn} failed on the accepted input {text!r} ({a}): {type(exc).__name__}: {str(exc)[:300]}')

    # simplify
    if ev.closed_ok(model):
        st, r = core.guarded(rw.simplify, a)
        if st == 'exc':
            envs = [ev.Env(t, v) for t, v in values.valuations(model, inp.get('this'), inp.get('aliases') or {}, 32)]
            if isinstance(r, RecursionError) or not c08._contains_zero_divisor_or_undefined_constant(model, envs):
                fail('simplify', r)
            elif stats is not None:
                stats['simplify:raise-allowed'] = stats.get('simplify:raise-allowed', 0) + 1
        else:
            _kind_ok(a, r, 'same', vinp, 'simplify', sub)
    elif stats is not None:
        stats['simplify:size-bound'] = stats.get('simplify:size-bound', 0) + 1
    boolean = pred or a.data_type.can_be_bool
    if boolean and (pred or a.data_type.value == 1):
        st, r = core.guarded(rw.split_and, a)
        if st == 'exc':
            if not (type(r) is ValueError and any(n == ('lit', 'bool', False) for n in ev._walk(model))):
                fail('split_and', r)
        else:
            _kind_ok(a, r, 'list-expr', vinp, 'split_and', sub)
        for fn in ('get_conjuncts', 'get_disjuncts'):
            st, r = core.guarded(getattr(rw, fn), a)
            if st == 'exc':
                fail(fn, r)
            _kind_ok(a, r, 'list-expr', vinp, fn, sub)
            if not r:
                raise Violation(sub, f'{fn}:empty', vinp, f'{fn}({a}) returned an empty list')
        names = sorted({n.token[1:] for n in astx.preorder(a) if astx.cname(n) == 'HplVarReference'} - _bound_names(a)) + ['Zz']
        for alias in names:
            st, r = core.guarded(rw.refactor_reference, a, alias)
            if st == 'exc':
                fail('refactor_reference', r)
            _kind_ok(a, r, 'pair', vinp, 'refactor_reference', sub)
    else:
        # not (exactly) boolean: the functions are still total on every accepted AST (the library hands such an input back,
        # paired with True / as a one-element list); only the absence of internal errors and the container kind are demanded
        st, r = core.guarded(rw.split_and, a)
        if st == 'exc':
            if not (type(r) is ValueError and any(n == ('lit', 'bool', False) for n in ev._walk(model))):
                fail('split_and', r)
        else:
            _kind_ok(a, r, 'list-expr', vinp, 'split_and', sub)
        for fn in ('get_conjuncts', 'get_disjuncts'):
            st, r = core.guarded(getattr(rw, fn), a)
            if st == 'exc':
                fail(fn, r)
            _kind_ok(a, r, 'list-expr', vinp, fn, sub)
        names = sorted({n.token[1:] for n in astx.preorder(a) if astx.cname(n) == 'HplVarReference'} - _bound_names(a)) + ['Zz']
        for alias in names:
            st, r = core.guarded(rw.refactor_reference, a, alias)
            if st == 'exc':
                fail('refactor_reference', r)
            _kind_ok(a, r, 'pair', vinp, 'refactor_reference', sub)
    # replacements
    st, r = core.guarded(rw.replace_this_with_var, a, c13.V)
    if st == 'exc':
        if not (isinstance(r, TypeError) and pred and c13._type_clash_possible(a, lambda m: mast.map_expr(m, lambda n: ('var', c13.V) if n == ('this',) else n))):
            fail('replace_this_with_var', r)
    else:
        _kind_ok(a, r, 'same', vinp, 'replace_this_with_var', sub)
    for alias in sorted(_message_aliases(a) - _bound_names(a)):
        st, r = core.guarded(rw.replace_var_with_this, a, alias)
        if st == 'exc':
            subst = lambda m: mast.map_expr(m, lambda n: ('this',) if n == ('var', alias) else n)  # noqa: E731
            if not (isinstance(r, TypeError) and pred and c13._type_clash_possible(a, subst)):
                fail('replace_var_with_this', r)
        else:
            _kind_ok(a, r, 'same', vinp, 'replace_var_with_this', sub)


def _message_aliases(a):
    """Names of @variables used as messages (every occurrence is the object of a field access): the aliases."""
    as_msg, other = set(), set()
    for n in astx.preorder(a):
        if astx.cname(n) == 'HplFieldAccess' and astx.cname(n.message) == 'HplVarReference':
            as_msg.add(n.message.token[1:])
    for n in astx.preorder(a):
        for k in astx.kids(n):
            if astx.cname(k) == 'HplVarReference' and not (astx.cname(n) == 'HplFieldAccess' and n.message is k):
                other.add(k.token[1:])
    if astx.cname(a) == 'HplVarReference':
        other.add(a.token[1:])
    return as_msg - other


def _bound_names(a):
    return {n.variable for n in astx.preorder(a) if astx.cname(n) == 'HplQuantifier'}


def sub_expr(inp):
    """inp: {'kind': predicate|condition|expression, 'text', 'this', 'aliases'}"""
    a = sem.parse_case(inp)
    if a is None:
        return None
    check_expr_functions(a, inp)
    return a


def sub_property(inp):
    """inp: {'text', 'm'?}: canonical_form and the expression-level functions on every event predicate."""
    from hpl.rewrite import canonical_form

    k, p = lib.outcome('property', inp['text'])
    if k != 'ast':
        return None
    st, r = core.guarded(canonical_form, p)
    if st == 'exc':
        raise Violation('property', f'canonical_form:{core.exc_sig(r)}', inp, f'canonical_form failed on the accepted property {inp["text"]!r}: {type(r).__name__}: {str(r)[:300]}')
    if not (isinstance(r, list) and r and all(astx.cname(x) == 'HplProperty' for x in r)):
        raise Violation('property', 'canonical_form:kind', inp, f'canonical_form returned {r!r}'[:300])
    topics = inp.get('topics') or {}
    aliases = {a: topics[t] for a, t in (inp.get('alias_topic') or {}).items() if t in topics}
    for evn in (p.scope.activator, p.scope.terminator, p.pattern.trigger, p.pattern.behaviour):
        for se in astx.flat_events(evn):
            # schemas (when the generator supplied them) give the allowed-raise oracle real valuations
            pinp = dict(inp, text=str(se.predicate), this=topics.get(str.__str__(se.name)), aliases=aliases)
            check_expr_functions(se.predicate, pinp, sub='property', vinp=inp)
    return p


SUBS = {'expr': sub_expr, 'property': sub_property}

###############################################################################
# Systematic table
###############################################################################


def arg_shapes():
    x, y, s, b = own('x'), own('y'), own('s'), own('b')
    ax = ('field', ('var', 'A'), 'x')
    one, two = ('lit', 'int', '1'), ('lit', 'int', '2')
    shapes = {
        'num-lit': two,
        'neg-lit': ('un', '-', one),
        'float-lit': ('lit', 'float', '0.5'),
        'str-lit': ('lit', 'str', '"a"'),
        'bool-lit': mast.TRUE,
        'own-field': x,
        'alias-field': ax,
        'array-field': own('xs'),
        'alias-array': ('field', ('var', 'A'), 'xs'),
        'msg-field': own('m'),
        'set-lits': ('set', (one, two, ('lit', 'int', '4'))),
        'set-one': ('set', (two,)),
        'set-refs': ('set', (x, ax, one)),
        'set-refs-only': ('set', (x, y)),
        'set-many': ('set', (x, y, ax, one, two)),
        'set-str': ('set', (('lit', 'str', '"a"'), s)),
        'range-lits': ('range', one, ('lit', 'int', '3'), False, False),
        'range-lits-excl': ('range', one, ('lit', 'int', '3'), True, True),
        'range-point-excl': ('range', one, one, True, True),
        'range-rev': ('range', two, one, False, False),
        'range-float': ('range', ('lit', 'float', '0.5'), ('lit', 'float', '2.5'), False, True),
        'range-refs': ('range', x, ('lit', 'int', '3'), False, False),
        'range-refs2': ('range', one, ax, True, False),
        'nested-call': ('call', 'abs', x),
        'nested-agg': ('call', 'len', own('xs')),
        'arith': binop('+', x, one),
        'arith-lits': binop('*', two, ('lit', 'int', '3')),
        'arith-div': binop('/', one, x),
        'cmp': binop('>', x, one),
        'index': ('index', own('xs'), ('lit', 'int', '0')),
        'zero': ('lit', 'int', '0'),
    }
    return shapes


TABLE_THIS = {
    'fields': {'x': ('num', 'int32'), 'y': ('num', 'float64'), 's': ('str',), 'b': ('bool',), 'xs': ('arr', ('num', 'int32'), -1),
               'm': ('msg', {'fields': {'x': ('num', 'float64'), 'y': ('num', 'float64'), 'z': ('num', 'float64'), 'w': ('num', 'float64')}, 'consts': {}})},
    'consts': {},
}  # fmt: skip
TABLE_ALIASES = {'A': {'fields': {'x': ('num', 'int32'), 'xs': ('arr', ('num', 'int32'), -1)}, 'consts': {}}}


def table_cases():
    shapes = arg_shapes()
    for f in mast.BUILTINS_1:
        for name, arg in shapes.items():
            call = ('call', f, arg)
            for wrap in ('gt', 'eq-str', 'bare', 'eq-alias', 'lit-left'):
                if wrap == 'gt':
                    m = binop('>', call, ('lit', 'int', '1'))
                elif wrap == 'eq-str':
                    m = binop('=', call, ('lit', 'str', '"a"'))
                elif wrap == 'bare':
                    m = call
                elif wrap == 'eq-alias':
                    m = binop('=', call, ('field', ('var', 'A'), 'x'))
                else:
                    m = binop('<=', ('lit', 'int', '1'), call)
                yield f'{f}:{name}:{wrap}', m


def literal_left_cases():
    x, av = own('x'), ('field', ('var', 'A'), 'x')
    lits = [('lit', 'int', '0'), ('lit', 'int', '1'), ('lit', 'int', '2')]
    for op, lit, ref, rel, other in itertools.product(mast.ARITH_OPS, lits, [x, av], ['=', '!=', '<', '>='], [x, av, ('lit', 'int', '1'), ('var', 'v')]):
        yield f'litleft:{op}:{rel}', binop(rel, binop(op, lit, ref), other)
        yield f'litleft-r:{op}:{rel}', binop(rel, other, binop(op, lit, ref))
        yield f'litleft-iff:{op}', binop('iff', binop(rel, binop(op, lit, ref), other), own('b'))


def run_table(ctx):
    n = 0
    for family in (table_cases(), literal_left_cases()):
        for label, m in family:
            text = mast.render(m)
            for kind in ('expression', 'condition'):
                inp = {'kind': kind, 'text': text, 'this': TABLE_THIS, 'aliases': TABLE_ALIASES}
                try:
                    a = sub_expr(inp)
                except Violation as v:
                    ctx.report(v)
                    a = True
                if a is None:
                    ctx.count('table:rejected-by-parser')
                    continue
                n += 1
                ctx.case((kind, text), True, 'table:' + label.split(':')[0], sample=text if n % 97 == 0 else None)
    ctx.exhaustive['builtin-x-argument-shape-table'] = True


def widened_table_cases():
    """Deterministic: calls with several arguments (API only) under quantifiers, plain and negated - the quantified
    variable, an alias field or an own field as the only non-literal argument, in a later argument position."""
    bodies = ['abs(@i) > @A.x', 'abs(@i) > x', 'abs(x) > @i', 'abs(@i + x) > 0 and y > 0', 'abs(@A.x) > @i or b', 'abs(@i) > 0']
    doms = ['xs', '[0 to 3]', '{1, 2}', '@A.xs']
    for qk in ('forall', 'exists'):
        for dom in doms:
            for body in bodies:
                for neg in ('', 'not '):
                    text = f'{neg}({qk} i in {dom}: ({body}))'
                    for variant in range(len(lib.WIDENINGS)):
                        for pre in ([f'widen_calls:{variant}'], [f'widen_calls:{variant}', 'negate'], ['negate', f'widen_calls:{variant}']):
                            yield {'kind': 'condition', 'text': text, 'this': TABLE_THIS, 'aliases': TABLE_ALIASES, 'pre': pre}


def run_widened_table(ctx):
    with ctx.timed('widened-table'):
        for inp in widened_table_cases():
            if inp['pre'][0] == 'negate' or inp['pre'][-1] == 'negate':
                inp = dict(inp, kind='predicate', text='{' + inp['text'] + '}')  # negate() is a method of predicates
            try:
                a = sub_expr(inp)
            except Violation as v:
                ctx.report(v)
                a = True
            ctx.case((inp['kind'], inp['text'], tuple(inp['pre'])), a is not None, 'widened-table:' + ('derived' if a is not None else 'not-derivable'), sample=None)


###############################################################################
# Random families
###############################################################################


def gen_expr_case(ch):
    kind = ch.pick(['expression', 'condition', 'predicate'])
    chaos = ch.pick([0, 0, 8, 15])
    depth = ch.int(1, 5)
    if kind == 'expression':
        m, T, schema, aliases = gen.standalone_terms(ch, depth=depth, chaos=chaos)
    else:
        m, schema, aliases = gen.standalone_predicates(ch, depth=depth, chaos=chaos)
    inp = {'kind': kind, 'text': mast.render(('pred', m) if kind == 'predicate' else m), 'this': schema, 'aliases': aliases}
    if ch.int(0, 3) == 0:
        # not parser output: what other API functions made of it, and calls widened to several arguments (API only)
        inp['pre'] = [ch.pick(['negate', 'negate', 'simplify', 'join_self', 'this_var_this', 'split_last'] + [f'widen_calls:{i}' for i in range(5)] * 2) for _ in range(ch.int(1, 2))]
    return inp


def gen_property_case(ch):
    m, info = gen.properties(ch, depth=ch.int(1, 3), chaos=ch.pick([0, 0, 6]))
    alias_topic = mast.alias_topics(m)
    return {'text': mast.render(m), 'm': m, 'topics': info['topics'], 'alias_topic': alias_topic}


def gen_f13_case(ch):
    """Properties in which a later event references an alias bound by only some alternatives of a split position."""
    topics = ch.sample(gen.TOPICS, min_size=4, max_size=4)
    alias = ch.pick(gen.ALIASES)
    n = ch.int(2, 3)
    alts = []
    who = ch.int(0, n - 1)
    for i in range(n):
        alts.append(('ev', topics[i], alias if i == who else None, None))
    later = ('ev', topics[3], None, binop('=', own('x'), ('field', ('var', alias), 'x')))
    kind = ch.int(0, 2)
    if kind == 0:
        m = ('prop', (), ('scope', 'after', ('disj', tuple(alts)), None), ('pat', ch.pick(['absence', 'existence']), None, later, None))
    elif kind == 1:
        m = ('prop', (), ('scope', 'globally', None, None), ('pat', 'response', ('disj', tuple(alts)), later, None))
    else:
        m = ('prop', (), ('scope', 'globally', None, None), ('pat', 'requirement', later, ('disj', tuple(alts)), None))
    return {'text': mast.render(m), 'm': m}


def shard(ctx, shard_no, nshards, n_expr, n_prop):
    def body_expr(inp):
        a = sub_expr(inp)
        if a is None:
            ctx.count('random:rejected-by-parser')
            return
        model = astx.to_model(a)
        ctx.case(inp['text'], _nontrivial(model), 'random:' + inp['kind'], sample=inp['text'])

    with ctx.timed('random-expr'):
        core.run_hypothesis(ctx, 'expr', from_tape(gen_expr_case), body_expr, n_expr)

    def body_prop(inp):
        p = sub_property(inp)
        if p is None:
            ctx.count('property:rejected-by-parser')
            return
        nt = any(astx.cname(n) in ('HplEventDisjunction', 'HplQuantifier', 'HplFunctionCall') for n in astx.preorder(p))
        ctx.case(inp['text'], nt, 'property', sample=inp['text'])

    with ctx.timed('random-prop'):
        core.run_hypothesis(ctx, 'property', from_tape(gen_property_case), body_prop, n_prop)

    def body_f13(inp):
        p = sub_property(inp)
        ctx.case(inp['text'], True, 'partial-alias-family' + ('' if p is not None else ':rejected'), sample=inp['text'])

    with ctx.timed('f13-family'):
        core.run_hypothesis(ctx, 'f13', from_tape(gen_f13_case), body_f13, max(50, n_prop // 10))


def shard_small(ctx, shard_no, nshards, stride):
    with ctx.timed('small'):
        for name, inp in sem.small_cases(ctx.seed, stride, shard_no, nshards, boolean_only=False, quant_stride=max(1, stride // 8)):
            try:
                a = sub_expr(inp)
            except Violation as v:
                ctx.report(v)
                a = True
            if a is None:
                ctx.count('small:rejected-by-parser')
                continue
            ctx.case(inp['text'], True, 'small:' + name)


DEGENERATE_ROOTS = ['1', '0.5', '"a"', 'True', '@m', 'x', '{1, x}', '{@m.f, 2}', '[0 to x]', '@m.f', 'xs[0]', 'xs[@m.i]', '-x', 'not p', 'len(xs)', 'x > 0', '@m.f = x']


def run_degenerate_pipelines(ctx):
    """Inputs that ARE (not merely contain) a literal, a variable, the current message, a set, a range - and what the
    functions make of them: every function on every root, then every function again on every expression it returned."""
    from hpl import rewrite as rw

    def steps(a):
        fns = [('replace_var_with_this[m]', lambda e: rw.replace_var_with_this(e, 'm')), ('replace_var_with_this[q]', lambda e: rw.replace_var_with_this(e, 'q')),
               ('replace_this_with_var', lambda e: rw.replace_this_with_var(e, 'V9')), ('refactor_reference[m]', lambda e: rw.refactor_reference(e, 'm')),
               ('split_and', rw.split_and), ('get_conjuncts', rw.get_conjuncts), ('get_disjuncts', rw.get_disjuncts)]  # fmt: skip
        if ev.closed_ok(astx.to_model(a)):
            fns.append(('simplify', rw.simplify))
        return fns

    def results(r):
        out = []
        for x in r if isinstance(r, (list, tuple)) else [r]:
            if getattr(x, 'is_expression', False) or getattr(x, 'is_predicate', False):
                out.append(x)
        return out

    with ctx.timed('degenerate-pipelines'):
        for text in DEGENERATE_ROOTS:
            k, a = lib.outcome('expression', text)
            if k != 'ast':
                ctx.count('degenerate:rejected-by-parser')
                continue
            for n1, f1 in steps(a):
                st, r1 = core.guarded(f1, a)
                if st == 'exc':
                    if not _allowed_degenerate(n1, r1, a):
                        ctx.report(Violation('pipeline', f'{n1}:{core.exc_sig(r1)}', {'text': text, 'steps': [n1]}, f'{n1}({text}) raised {type(r1).__name__}: {str(r1)[:200]}'))
                    continue
                for b in results(r1):
                    for n2, f2 in steps(b):
                        st2, r2 = core.guarded(f2, b)
                        ctx.case(('pipeline', text, n1, n2, str(b)), True, 'degenerate-pipeline')
                        if st2 == 'exc' and not _allowed_degenerate(n2, r2, b):
                            ctx.report(Violation('pipeline', f'{n1}>{n2}:{core.exc_sig(r2)}', {'text': text, 'steps': [n1, n2]}, f'{n2} applied to {b} (= {n1}({text})) raised {type(r2).__name__}: {str(r2)[:200]}'))


def _allowed_degenerate(name, exc, a):
    model = astx.to_model(a)
    if name == 'simplify':
        return not isinstance(exc, RecursionError) and c08._contains_zero_divisor_or_undefined_constant(model, None)
    if name == 'split_and':
        return type(exc) is ValueError and any(n == ('lit', 'bool', False) for n in ev._walk(model))
    return False


def sub_pipeline(inp):
    """inp: {'text': expression text, 'steps': [names]}: replay of one degenerate pipeline."""
    from hpl import rewrite as rw

    table = {'replace_var_with_this[m]': lambda e: rw.replace_var_with_this(e, 'm'), 'replace_var_with_this[q]': lambda e: rw.replace_var_with_this(e, 'q'),
             'replace_this_with_var': lambda e: rw.replace_this_with_var(e, 'V9'), 'refactor_reference[m]': lambda e: rw.refactor_reference(e, 'm'),
             'split_and': rw.split_and, 'get_conjuncts': rw.get_conjuncts, 'get_disjuncts': rw.get_disjuncts, 'simplify': rw.simplify}  # fmt: skip
    k, a = lib.outcome('expression', inp['text'])
    if k != 'ast':
        return None
    objs = [a]
    for i, name in enumerate(inp['steps']):
        nxt = []
        for o in objs:
            st, r = core.guarded(table[name], o)
            if st == 'exc':
                if not _allowed_degenerate(name, r, o):
                    raise Violation('pipeline', f'{">".join(inp["steps"][: i + 1])}:{core.exc_sig(r)}', inp, f'{name} applied to {o} raised {type(r).__name__}: {str(r)[:200]}')
                continue
            for x in r if isinstance(r, (list, tuple)) else [r]:
                if getattr(x, 'is_expression', False) or getattr(x, 'is_predicate', False):
                    nxt.append(x)
        objs = nxt
    return len(objs)


SUBS['pipeline'] = sub_pipeline


def shard_vacuity(ctx, shard_no, nshards, stride):
    """Properties whose event predicates are absent / {True} / {False} / {x > 0}, per position and on whole disjunctions."""
    with ctx.timed('vacuity-table'):
        for i, m in enumerate(gen.vacuity_table()):
            if stride * nshards > 1 and sem._mix(i, ctx.seed) % (stride * nshards) != shard_no:
                continue
            inp = {'text': mast.render(m)}
            try:
                p = sub_property(inp)
            except Violation as v:
                ctx.report(v)
                p = True
            if p is None:
                ctx.count('vacuity-table:rejected-by-parser')
                continue
            ctx.case(inp['text'], True, 'vacuity-table')


def run(ctx):
    with ctx.timed('table'):
        run_table(ctx)
    run_degenerate_pipelines(ctx)
    run_widened_table(ctx)
    if ctx.tier == 'quick':
        core.run_sharded(ctx, __name__, 'shard', 4, (450, 180))
        core.run_sharded(ctx, __name__, 'shard_small', 4, (40,))
        core.run_sharded(ctx, __name__, 'shard_vacuity', 4, (8,))
    else:
        n = getattr(ctx, 'shards_override', None) or 16
        core.run_sharded(ctx, __name__, 'shard', n, (16000, 6000))
        core.run_sharded(ctx, __name__, 'shard_small', n, (1,))
        core.run_sharded(ctx, __name__, 'shard_vacuity', n, (1,))
        ctx.exhaustive['small-grammar'] = True
        ctx.exhaustive['vacuity-table'] = True
        with ctx.timed('atheris'):
            from hplverif import fuzz

            fuzz.tape_campaigns(ctx, 'C14', 8, 60000)



def extra_evidence(ctx):
    return {'exhaustive': False}
