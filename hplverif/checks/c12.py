# C12 Splitting a pattern over event alternatives preserves trace semantics.

import itertools

from hplverif import astx, core, lib, mast, ts
from hplverif.core import Violation
from hplverif.mast import binop, own
from hplverif.tape import from_tape

RULE = (
    'properties whose activator is not a disjunction are generated over topics p, q, a1..a3, b1..b3 with a payload field '
    'x in {0,1}: every scope form (incl. aliased activator and a terminator that mentions it) x every pattern kind x split-event '
    'width 1-3 x other-event width 1-2 x predicates {none, x = 0, x = 1, x = @ALIAS.x for an alias in scope} x time bound {none, 2 s}; '
    'a quarter of the properties are judged after a history (canonical_form already applied; then a copy with another / no time bound made with but(), or the same text parsed again); '
    'each property and each member of canonical_form(property) is evaluated by a reference trace semantics on ALL timed traces up '
    'to a length bound over the property\'s own topics (payload 0/1, gaps 1/3), under two readings of scope re-activation; a '
    'plus sampled traces of length 5-8 drawn from the same Hypothesis tape; a violation is a trace on which "P holds" differs from "all members hold" under BOTH readings. Non-trivial: the canonical form has '
    '>= 2 members and the trace contains matches of at least two different alternatives of the split event; distinct by (property, trace).'
)
ASSUMPTIONS = [
    'the trace semantics in hplverif/ts.py (written from docs/lang.md; strong finite-trace reading of liveness, inclusive bounds, '
    'strictly later/earlier by trace index) is the meaning of scopes and patterns; only the relation between a property and its canonical form is judged',
]
LEVEL = 'exploration'


def selftest():
    try:
        ts.selftest()
    except AssertionError as e:
        raise core.HarnessError(str(e))


X0 = binop('=', own('x'), ('lit', 'int', '0'))
X1 = binop('=', own('x'), ('lit', 'int', '1'))


def _pred(ch, visible, binders=()):
    opts = [None, None, X0, X1, X0, X1, mast.FALSE, mast.TRUE, binop('and', X0, X1), binop('or', X0, X1), ('un', 'not', X0), binop('and', X1, ('un', 'not', X0))]
    for a in visible:
        eq = binop('=', own('x'), ('field', ('var', a), 'x'))
        opts.append(eq)
        opts.append(eq)
        # conjunctions and disjunctions (a message may satisfy one part only)
        opts.append(binop('and', ch.pick([X0, X1]), eq))
        opts.append(binop('or', ch.pick([X0, X1]), ('un', 'not', eq)))
    # the same two conditions written with a quantifier over a set built on the field; the bound variable may carry
    # the name of an alias used somewhere in the property (visible here, bound by one alternative only, the event's own): just a name
    v = ch.pick(['i', 'P', 'S', 'Y0', 'Y1', 'Y2'])
    if binders and ch.int(0, 3) > 0:
        v = ch.pick(sorted(binders))  # an alias that another event of this property binds (perhaps in one alternative only)
    for _ in range(3 if binders else 1):
        opts.append(('q', 'forall', v, ('set', (own('x'), ('lit', 'int', '1'))), binop('=', ('var', v), ('lit', 'int', '1'))))
        opts.append(('q', 'exists', v, ('set', (own('x'),)), binop('=', ('var', v), ('lit', 'int', '0'))))
    if visible and v not in visible:
        a = visible[-1]
        opts.append(('q', 'forall', v, ('set', (own('x'), ('field', ('var', a), 'x'))), binop('=', ('var', v), ('field', ('var', a), 'x'))))
    return ch.pick(opts)


def gen_property(ch):
    sform = ch.int(0, 5)
    visible = []
    act = term = None
    if sform in (1, 2, 4, 5):
        alias = 'P' if sform in (2, 5) or ch.int(0, 2) == 0 else None
        act = ('ev', 'p', alias, _pred(ch, []))
        if alias:
            visible.append(alias)
    if sform in (3, 4, 5):
        term = ('ev', 'q', None, _pred(ch, visible))
    sk = {0: 'globally', 1: 'after', 2: 'after', 3: 'until', 4: 'after_until', 5: 'after_until'}[sform]
    pk = ch.pick(['absence', 'existence', 'response', 'prevention', 'requirement'])

    def bound_in(ev):
        return {e[2] for e in mast.simple_events(ev) if e[2]}

    def event(names, width, vis, alias_mode, binders=()):
        """alias_mode: None | 'each' (distinct aliases) | 'shared' (the same alias on every alternative)"""
        evs = []
        for i in range(width):
            alias = None
            if alias_mode == 'shared':
                alias = 'S'
            elif alias_mode == 'each' and ch.bool():
                alias = f'Y{i}'
            evs.append(('ev', names[i], alias, _pred(ch, vis, binders)))
        return evs[0] if width == 1 else ('disj', tuple(evs))

    A, B = ['a1', 'a2', 'a3'], ['b1', 'b2', 'b3']
    if ch.int(0, 3) == 0:
        # pattern events may also listen on the channel of the terminator or of the activator
        extra = ([('q')] if term is not None else []) + (['p'] if act is not None else [])
        if extra:
            B = [ch.pick(extra)] + B[:2] if ch.bool() else B[:1] + [ch.pick(extra)] + B[1:2]
            if ch.bool():
                A = [ch.pick(extra)] + A[:2]
    elif ch.int(0, 3) == 0:
        # trigger and behaviour may be events on the same topics (a channel may not repeat inside ONE disjunction only);
        # with equal predicates the two positions are then equal sub-trees
        A = B = ['b1', 'b2', 'b3']
    trig = None
    if pk in ('absence', 'existence'):
        beh = event(B, ch.int(1, 3), visible, ch.pick([None, 'each']))
    elif pk == 'requirement':
        # behaviour is split; the trigger may see an alias shared by all behaviour alternatives
        mode = ch.pick([None, 'each', 'shared', 'shared'])
        w = ch.int(1, 3)
        beh = event(B, w, visible, mode)
        vis2 = visible + (['S'] if mode == 'shared' else []) + ([beh[2]] if w == 1 and beh[2] else [])
        trig = event(A, ch.int(1, 2), vis2, None, bound_in(beh))
    elif pk == 'response':
        mode = ch.pick([None, 'each', 'shared', 'shared'])
        w = ch.int(1, 3)
        trig = event(A, w, visible, mode)
        vis2 = visible + (['S'] if mode == 'shared' else []) + ([trig[2]] if w == 1 and trig[2] else [])
        beh = event(B, ch.int(1, 2), vis2, None, bound_in(trig))
    else:  # prevention: behaviour is split, trigger is not
        w = ch.int(1, 2)
        mode = ch.pick([None, 'shared'])
        trig = event(A, w, visible, mode)
        vis2 = visible + (['S'] if mode == 'shared' else []) + ([trig[2]] if w == 1 and trig[2] else [])
        beh = event(B, ch.int(1, 3), vis2, ch.pick([None, 'each']), bound_in(trig))
    if A is B and trig is not None and ch.bool() and not any(n[0] == 'var' or (n[0] == 'ev' and n[2]) for n in mast.walk(trig)):
        beh = trig  # the very same event (sub-tree) in both positions
    bound = ch.pick([None, ('2', 's'), ('2', 's'), ('2000', 'ms')])
    m = ('prop', (), ('scope', sk, act, term), ('pat', pk, trig, beh, bound))
    # the rest of the tape drives longer sampled traces (length 5..8) over the property's own alphabet
    tops = topics_of(m)
    alphabet = [(g, t, x) for t in tops for x in (0, 1) for g in (1, 3)]
    long_traces = []
    while not ch.exhausted and len(long_traces) < 64:
        n = ch.int(5, 8)
        long_traces.append([list(ch.pick(alphabet)) for _ in range(n)])
    derive = ch.pick([None, None, None, None, ('retime', 1), ('retime', 4), ('untimed',), ('reparse',)])
    return {'m': m, 'text': mast.render(m), 'long_traces': long_traces[:-1], 'derive': derive}


def topics_of(m):
    out = []
    for n in mast.walk(m):
        if n[0] == 'ev' and n[1] not in out:
            out.append(n[1])
    return out


def all_traces(topics, maxlen):
    alphabet = [(g, t, x) for t in topics for x in (0, 1) for g in (1, 3)]
    for n in range(maxlen + 1):
        for items in itertools.product(alphabet, repeat=n):
            yield items


def _cf():
    from hpl.rewrite import canonical_form

    return canonical_form


def compile_case(inp):
    k, p = lib.outcome('property', inp['text'])
    if k != 'ast':
        return None
    derive = inp.get('derive')
    if derive:
        # history: canonical_form has already been applied to the parsed property (and to its twin) when the property
        # that is judged is derived from it - the result must depend on the argument only
        core.guarded(_cf(), p)
        if derive[0] == 'retime':
            st0, q = core.guarded(lambda: p.but(pattern=p.pattern.but(max_time=float(derive[1]))))
        elif derive[0] == 'untimed':
            st0, q = core.guarded(lambda: p.but(pattern=p.pattern.but(max_time=float('inf'))))
        else:  # 'reparse': an equal property object
            st0, q = lib.outcome('property', inp['text'])
            st0 = 'ok' if st0 == 'ast' else 'exc'
        if st0 != 'ok':
            return None
        p = q
    st, members = core.guarded(_cf(), p)
    if st == 'exc':
        raise Violation('trace', f'canonical_form:{core.exc_sig(members)}', inp, f'canonical_form({inp["text"]!r}) raised {type(members).__name__}: {str(members)[:200]}')
    cp = ts.CompiledProperty(p)
    cms = [ts.CompiledProperty(q) for q in members]
    return p, members, cp, cms


def check_trace(inp, compiled, items):
    p, members, cp, cms = compiled
    trace = ts.make_trace(list(items))
    bad = {}
    for reading in ('R1', 'R2'):
        whole = cp.holds(trace, reading)
        parts = all(c.holds(trace, reading) for c in cms)
        if whole != parts:
            bad[reading] = (whole, parts)
    if len(bad) == 2:
        w, pt = bad['R1']
        raise Violation(
            'trace', f'split-changes-meaning:{p.pattern.pattern_type.name}:{p.scope.scope_type.name}', dict({k: v for k, v in inp.items() if k != 'long_traces'}, trace=[list(i) for i in items]),
            f'{str(p) if inp.get("derive") else inp["text"]!r}{" (derived: " + repr(inp["derive"]) + ")" if inp.get("derive") else ""} {"holds" if w else "is violated"} on the trace {[(t, tp, m["x"]) for t, tp, m, _ in trace]} but its canonical form '
            f'{[str(q) for q in members]} {"holds" if pt else "is violated"} (under both readings of scope re-activation)',
        )  # fmt: skip
    return bad


def sub_trace(inp):
    """inp: {'text', 'm', 'trace': [[gap, topic, x], ...]}"""
    compiled = compile_case(inp)
    if compiled is None:
        return None
    return check_trace(inp, compiled, [tuple(i) for i in inp['trace']])


def sub_all_traces(inp):
    """inp: {'text', 'm', 'maxlen'}: every trace up to maxlen"""
    compiled = compile_case(inp)
    if compiled is None:
        return None
    for items in all_traces(topics_of(inp['m']), inp.get('maxlen', 3)):
        check_trace(inp, compiled, items)


SUBS = {'trace': sub_trace, 'all_traces': sub_all_traces}


def _split_alternatives(m):
    pt = m[3]
    role = {'absence': 3, 'requirement': 3, 'prevention': 3, 'response': 2}.get(pt[1])
    if role is None:
        return []
    return [e[1] for e in mast.simple_events(pt[role])]


def shard(ctx, shard_no, nshards, n_props, maxlen):
    seen_props = set()

    def body(inp):
        key = (inp['text'], tuple(inp.get('derive') or ()))
        if key in seen_props:
            ctx.count('duplicate-property')
            return
        compiled = compile_case(inp)
        if compiled is None:
            ctx.count('rejected-by-parser')
            return
        p, members, cp, cms = compiled
        alts = _split_alternatives(inp['m'])
        n = nt = rd = 0
        for items in all_traces(topics_of(inp['m']), maxlen):
            bad = check_trace(inp, compiled, items)
            n += 1
            if bad:
                rd += 1
            if len(members) >= 2 and len({t for _g, t, _x in items if t in alts}) >= 2:
                nt += 1
        for items in inp.get('long_traces', ()):
            bad = check_trace(inp, compiled, [tuple(i) for i in items])
            n += 1
            ctx.count('long-traces')
            if bad:
                rd += 1
            if len(members) >= 2 and len({t for _g, t, _x in items if t in alts}) >= 2:
                nt += 1
        seen_props.add(key)
        if inp.get('derive'):
            ctx.count('history:' + inp['derive'][0])
        ctx.evaluations += n
        ctx.count('traces', n)
        ctx.count('nontrivial_counted', nt)
        ctx.count('reading-dependent', rd)
        ctx.count('properties')
        ctx.count('properties-split' if len(members) >= 2 else 'properties-unsplit')
        klass = p.pattern.pattern_type.name.lower() + ':' + p.scope.scope_type.name.lower()
        ctx.counts['class:' + klass] += 1
        lst = ctx.samples.setdefault(klass, [])
        if len(lst) < 1:
            lst.append({'property': inp['text'], 'canonical_form': [str(q) for q in members], 'traces_checked': n})

    with ctx.timed('exhaustive-traces'):
        core.run_hypothesis(ctx, 'properties', from_tape(gen_property, 640), body, n_props)
    ctx.exhaustive[f'all-traces-up-to-length-{maxlen}-per-property'] = True


def run(ctx):
    if ctx.tier == 'quick':
        core.run_sharded(ctx, __name__, 'shard', 4, (200, 3))
    else:
        core.run_sharded(ctx, __name__, 'shard', getattr(ctx, 'shards_override', None) or 16, (150, 4))


def extra_evidence(ctx):
    return {
        'distinct_nontrivial': int(ctx.counts.get('nontrivial_counted', 0)),
        'explanation_distinct': 'per property every trace is enumerated once; non-trivial (property, trace) pairs are counted during enumeration; duplicate properties are skipped',
        'exhaustive': False,
        'exhaustive_note': 'for each generated property the bounded trace space is enumerated completely; the property family itself is sampled',
    }
