# Schemas (hplverif.gen ftype trees) -> hpl.types tokens.


def _num_token(name):
    import hpl.types as T

    return {
        'uint8': T.UINT8, 'uint16': T.UINT16, 'uint32': T.UINT32, 'uint64': T.UINT64,
        'int8': T.INT8, 'int16': T.INT16, 'int32': T.INT32, 'int64': T.INT64,
        'float32': T.FLOAT32, 'float64': T.FLOAT64,
    }[name]  # fmt: skip


def token(ft, name='t'):
    import hpl.types as T

    k = ft[0]
    if k == 'bool':
        return T.BOOLEANS
    if k == 'num':
        return _num_token(ft[1])
    if k == 'str':
        return T.STRINGS
    if k == 'arr':
        return T.ArrayType(f'{name}[]', token(ft[1], name), length=ft[2])
    if k == 'msg':
        return message(ft[1], name)
    raise ValueError(ft)


def message(schema, name='Msg'):
    import hpl.types as T

    fields = {n: token(ft, f'{name}.{n}') for n, ft in schema['fields'].items()}
    consts = {n: (token(ft, n), v) for n, (ft, v) in schema['consts'].items()}
    return T.MessageType(name, fields=fields, constants=consts)


def msg_types(info):
    """{topic or alias: MessageType} for a generated property (info from gen.properties)."""
    out = {t: message(sc, 'T_' + t.replace('/', '_').replace('~', '_')) for t, sc in info['topics'].items()}
    for a, sc in info['aliases'].items():
        # the alias denotes a message of the topic it is bound on: same schema object
        for t, sct in info['topics'].items():
            if sct is sc:
                out[a] = out[t]
                break
        else:
            out[a] = message(sc, 'A_' + a)
    return out
