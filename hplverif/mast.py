# Model trees (M-AST): the independent "intended tree" of an HPL text, plus the
# renderer M-AST -> text in which layout and parenthesisation are explicit
# choices. Nothing here imports hpl.
#
# Trees are nested tuples (JSON-friendly):
#   ('lit', kind, text)          kind in bool|int|float|str ; text is the lexeme
#   ('const', 'PI'|'E'|'INF'|'NAN')
#   ('this',)                    the current message (never rendered on its own)
#   ('var', name)                @name
#   ('field', base, name)        base.name  (base ('this',) renders as just name)
#   ('index', base, idx)         base[idx]
#   ('set', (e, ...))            {e, ...}
#   ('range', lo, hi, xlo, xhi)  [lo to hi] with ![ / ]! when exclusive
#   ('un', 'not'|'-', e)
#   ('bin', op, l, r)
#   ('q', 'forall'|'exists', var, domain, body)
#   ('call', fname, arg)
#   ('ev', topic, alias|None, pred|None)
#   ('disj', (ev, ...))
#   ('scope', 'globally'|'after'|'until'|'after_until', activator|None, terminator|None)
#   ('pat', 'existence'|'absence'|'response'|'prevention'|'requirement', trigger|None, behaviour, bound|None)
#        bound = (number_text, 's'|'ms')
#   ('prop', ((key, value_text), ...), scope, pattern)
#   ('spec', (prop, ...))

LOGIC_OPS = ('implies', 'iff', 'or', 'and')
REL_OPS = ('=', '!=', '<', '<=', '>', '>=', 'in')
ARITH_OPS = ('+', '-', '*', '/', '**')
BIN_OPS = LOGIC_OPS + REL_OPS + ARITH_OPS

# precedence levels, written from the grammar rule nesting:
# condition(1) > disjunction(2) > conjunction(3) > _logic_expr(4: not, quantifier,
# relational) > expr(5) > term(6) > factor(7) > _exponent(8: unary minus, parens) > atoms(9)
BIN_LEVEL = {'implies': 1, 'iff': 1, 'or': 2, 'and': 3, '+': 5, '-': 5, '*': 6, '/': 6, '**': 7}
for _op in REL_OPS:
    BIN_LEVEL[_op] = 4

KEYWORDS = {
    'not', 'and', 'or', 'implies', 'iff', 'in', 'forall', 'exists', 'to', 'as', 'within', 'no', 'some',
    'requires', 'causes', 'forbids', 'after', 'until', 'globally', 'True', 'False', 'PI', 'E', 'INF', 'NAN',
    's', 'ms',
}  # fmt: skip

BUILTINS_1 = (
    'abs', 'bool', 'int', 'float', 'str', 'len', 'sum', 'prod', 'sqrt', 'ceil', 'floor', 'sin', 'cos', 'tan',
    'asin', 'acos', 'atan', 'deg', 'rad', 'max', 'min', 'gcd', 'roll', 'pitch', 'yaw',
)  # fmt: skip
ALL_BUILTINS = BUILTINS_1 + ('log', 'atan2')


def level(e):
    k = e[0]
    if k == 'bin':
        return BIN_LEVEL[e[1]]
    if k == 'un':
        return 4 if e[1] == 'not' else 8
    if k == 'q':
        return 4
    return 9


def lhs_need(op):
    lv = BIN_LEVEL[op]
    if lv == 4:
        return 5  # relational operators do not chain
    return lv


def rhs_need(op):
    lv = BIN_LEVEL[op]
    if lv == 4:
        return 5
    if lv == 3:
        return 4
    return lv + 1


###############################################################################
# Layout
###############################################################################

WS_CHOICES = (' ', ' ', ' ', '  ', '\t', '\n', '\r\n', ' \n  ')


class Layout:
    """Deterministic source of layout decisions, driven by integer lists.

    seps:  cyclic list; each entry picks the separator between two adjacent tokens
    extra: cyclic list; each entry is the number of redundant parenthesis layers
           added at the next position where the grammar allows a parenthesised condition
    full:  parenthesise every compound operand (on top of what is required)
    """

    def __init__(self, seps=(), extra=(), full=False):
        self.seps = tuple(seps)
        self.extras = tuple(extra)
        self.full = bool(full)
        self._i = 0
        self._j = 0

    def reset(self):
        self._i = 0
        self._j = 0

    def sep(self, fusable, tight):
        if not self.seps:
            return '' if tight else ' '
        v = self.seps[self._i % len(self.seps)]
        self._i += 1
        opts = WS_CHOICES + (('', '') if fusable else ())
        return opts[v % len(opts)]

    def extra(self):
        if not self.extras:
            return 0
        v = self.extras[self._j % len(self.extras)]
        self._j += 1
        return v

    def to_json(self):
        return {'seps': list(self.seps), 'extra': list(self.extras), 'full': self.full}

    @classmethod
    def from_json(cls, d):
        if d is None:
            return cls()
        return cls(d.get('seps', ()), d.get('extra', ()), d.get('full', False))


CANON = None  # Layout() is created per call, it is stateful

# token roles: w word (name, keyword, string, @var), num number, p safe punctuation,
# o operator-like (never fused), dot, ib index '[', ibc index ']', unit
SAFE_PUNCT = {'(', ')', '{', '}', ',', ':'}


def _fusable(l, r):
    (lt, lr), (rt, rr) = l, r
    if lr == 'p' or rr == 'p':
        # never glue a safe punctuation to a '#', and keep '!'-tokens apart from '=' etc.
        if lr == 'o' or rr == 'o':
            return lt not in ('#',) and rt not in ('#',)
        return True
    if rr == 'dot' and lr in ('w', 'ibc'):
        return True
    if lr == 'dot' and rr == 'w':
        return True
    if rr == 'ib' and lr in ('w', 'ibc'):
        return True
    if lr == 'ib' and rr in ('w', 'num'):
        return True
    if rr == 'ibc' and lr in ('w', 'num'):
        return True
    if lr == 'num' and rr == 'unit':
        return True
    return False


def _tight(l, r):
    (lt, lr), (rt, rr) = l, r
    if rr in ('dot', 'ib', 'ibc') or lr in ('dot', 'ib'):
        return _fusable(l, r)
    if rt in (')', ',') or lt == '(':
        return True
    if rt == '(' and lr == 'w' and lt not in KEYWORDS:
        return True  # function call
    if rt == ':':
        return True
    return False


def join_tokens(toks, layout=None):
    layout = layout or Layout()
    out = []
    prev = None
    for t in toks:
        if prev is not None:
            out.append(layout.sep(_fusable(prev, t), _tight(prev, t)))
        out.append(t[0])
        prev = t
    return ''.join(out)


###############################################################################
# Rendering
###############################################################################


def W(t):
    return (t, 'w')


def P(t):
    return (t, 'p')


def O(t):
    return (t, 'o')


def expr_tokens(e, need, layout, atomic_only=False):
    """Tokens of expression e in a position that needs precedence level >= need.

    atomic_only: the position is an _atomic_value (quantifier domain): no parentheses allowed.
    """
    lv = level(e)
    layers = 0
    if not atomic_only:
        if lv < need:
            layers = 1
        elif layout.full and lv < 9 and need <= 8:
            layers = 1
        if need <= 8:
            layers += layout.extra()
    elif lv < 9:
        raise ValueError(f'non-atomic expression in atomic position: {e!r}')
    if layers:
        inner = _raw_tokens(e, layout)
        for _ in range(layers):
            inner = [P('(')] + inner + [P(')')]
        return inner
    return _raw_tokens(e, layout)


def _raw_tokens(e, layout):
    k = e[0]
    if k == 'lit':
        return [(e[2], 'num' if e[1] in ('int', 'float') else 'w')]
    if k == 'const':
        return [W(e[1])]
    if k == 'var':
        return [W('@' + e[1])]
    if k == 'this':
        raise ValueError('the current message cannot be rendered on its own')
    if k == 'field':
        if e[1] == ('this',):
            return [W(e[2])]
        return _ref_tokens(e[1], layout) + [('.', 'dot'), W(e[2])]
    if k == 'index':
        return _ref_tokens(e[1], layout) + [('[', 'ib')] + expr_tokens(e[2], 5, layout) + [(']', 'ibc')]
    if k == 'set':
        toks = [P('{')]
        for i, v in enumerate(e[1]):
            if i:
                toks.append(P(','))
            toks += expr_tokens(v, 5, layout)
        return toks + [P('}')]
    if k == 'range':
        return (
            [O('![' if e[3] else '[')]
            + expr_tokens(e[1], 5, layout)
            + [W('to')]
            + expr_tokens(e[2], 5, layout)
            + [O(']!' if e[4] else ']')]
        )
    if k == 'un':
        if e[1] == 'not':
            return [W('not')] + expr_tokens(e[2], 4, layout)
        return [O('-')] + expr_tokens(e[2], 8, layout)
    if k == 'bin':
        op = e[1]
        optok = W(op) if op[0].isalpha() else O(op)
        return expr_tokens(e[2], lhs_need(op), layout) + [optok] + expr_tokens(e[3], rhs_need(op), layout)
    if k == 'q':
        return (
            [W(e[1]), W(e[2]), W('in')]
            + expr_tokens(e[3], 9, layout, atomic_only=True)
            + [P(':')]
            + expr_tokens(e[4], 4, layout)
        )
    if k == 'call':
        return [W(e[1]), P('(')] + expr_tokens(e[2], 5, layout) + [P(')')]
    raise ValueError(f'not an expression: {e!r}')


def _ref_tokens(e, layout):
    if e[0] not in ('var', 'field', 'index'):
        raise ValueError(f'not a reference: {e!r}')
    return _raw_tokens(e, layout)


def pred_tokens(p, layout):
    return [P('{')] + expr_tokens(p, 1, layout) + [P('}')]


def event_tokens(ev, layout):
    if ev[0] == 'disj':
        toks = [P('(')]
        for i, e in enumerate(ev[1]):
            if i:
                toks.append(W('or'))
            toks += event_tokens(e, layout)
        return toks + [P(')')]
    _, topic, alias, pred = ev
    toks = [W(topic)]
    if alias is not None:
        toks += [W('as'), W(alias)]
    if pred is not None:
        toks += pred_tokens(pred, layout)
    return toks


def scope_tokens(sc, layout):
    _, kind, act, term = sc
    if kind == 'globally':
        return [W('globally')]
    if kind == 'after':
        return [W('after')] + event_tokens(act, layout)
    if kind == 'until':
        return [W('until')] + event_tokens(term, layout)
    return [W('after')] + event_tokens(act, layout) + [W('until')] + event_tokens(term, layout)


def pattern_tokens(pt, layout):
    _, kind, trig, beh, bound = pt
    if kind == 'existence':
        toks = [W('some')] + event_tokens(beh, layout)
    elif kind == 'absence':
        toks = [W('no')] + event_tokens(beh, layout)
    elif kind == 'response':
        toks = event_tokens(trig, layout) + [W('causes')] + event_tokens(beh, layout)
    elif kind == 'prevention':
        toks = event_tokens(trig, layout) + [W('forbids')] + event_tokens(beh, layout)
    elif kind == 'requirement':
        toks = event_tokens(beh, layout) + [W('requires')] + event_tokens(trig, layout)
    else:
        raise ValueError(kind)
    if bound is not None:
        toks += [W('within'), (bound[0], 'num'), (bound[1], 'unit')]
    return toks


def property_tokens(pr, layout):
    _, meta, sc, pt = pr
    toks = []
    for key, val in meta:
        toks += [O('#'), W(key), P(':'), W(val)]
    return toks + scope_tokens(sc, layout) + [P(':')] + pattern_tokens(pt, layout)


def tokens(m, layout=None):
    layout = layout or Layout()
    k = m[0]
    if k == 'spec':
        toks = []
        for p in m[1]:
            toks += property_tokens(p, layout)
        return toks
    if k == 'prop':
        return property_tokens(m, layout)
    if k == 'pred':
        return pred_tokens(m[1], layout)
    if k in ('ev', 'disj'):
        return event_tokens(m, layout)
    return expr_tokens(m, 1, layout)


def render(m, layout=None):
    """Text of model tree m. ('pred', e) renders '{ e }'."""
    layout = layout or Layout()
    layout.reset()
    return join_tokens(tokens(m, layout), layout)


###############################################################################
# Helpers over model trees
###############################################################################


def is_expr(m):
    return m[0] in ('lit', 'const', 'this', 'var', 'field', 'index', 'set', 'range', 'un', 'bin', 'q', 'call', 'calln')


def children(m):
    k = m[0]
    if k in ('lit', 'const', 'this', 'var'):
        return ()
    if k == 'field':
        return (m[1],)
    if k == 'index':
        return (m[1], m[2])
    if k == 'set':
        return tuple(m[1])
    if k == 'range':
        return (m[1], m[2])
    if k == 'un':
        return (m[2],)
    if k == 'bin':
        return (m[2], m[3])
    if k == 'q':
        return (m[3], m[4])
    if k == 'call':
        return (m[2],)
    if k == 'calln':
        return tuple(m[2])
    if k == 'ev':
        return () if m[3] is None else (m[3],)
    if k == 'disj':
        return tuple(m[1])
    if k == 'scope':
        return tuple(x for x in (m[2], m[3]) if x is not None)
    if k == 'pat':
        return tuple(x for x in (m[2], m[3]) if x is not None)
    if k == 'prop':
        return (m[2], m[3])
    if k == 'spec':
        return tuple(m[1])
    if k == 'pred':
        return (m[1],)
    raise ValueError(m)


def walk(m):
    stack = [m]
    while stack:
        x = stack.pop()
        yield x
        stack.extend(reversed(children(x)))


def size(m):
    return sum(1 for _ in walk(m))


def depth(m):
    cs = children(m)
    return 1 + (max(depth(c) for c in cs) if cs else 0)


def map_expr(e, f):
    """Rebuild expression e bottom-up, applying f to every rebuilt node."""
    k = e[0]
    if k in ('lit', 'const', 'this', 'var'):
        return f(e)
    if k == 'field':
        return f(('field', map_expr(e[1], f), e[2]))
    if k == 'index':
        return f(('index', map_expr(e[1], f), map_expr(e[2], f)))
    if k == 'set':
        return f(('set', tuple(map_expr(v, f) for v in e[1])))
    if k == 'range':
        return f(('range', map_expr(e[1], f), map_expr(e[2], f), e[3], e[4]))
    if k == 'un':
        return f(('un', e[1], map_expr(e[2], f)))
    if k == 'bin':
        return f(('bin', e[1], map_expr(e[2], f), map_expr(e[3], f)))
    if k == 'q':
        return f(('q', e[1], e[2], map_expr(e[3], f), map_expr(e[4], f)))
    if k == 'call':
        return f(('call', e[1], map_expr(e[2], f)))
    if k == 'calln':
        return f(('calln', e[1], tuple(map_expr(a, f) for a in e[2])))
    raise ValueError(e)


def replace_var_base(e, alias, new=('this',)):
    """Expected effect of an event's own alias: @alias as a reference becomes the message itself.

    Capture-avoiding: inside a quantifier that binds the same name, @alias is the bound variable and stays
    (the domain of that quantifier is still outside its scope).
    """
    k = e[0]
    if k == 'var':
        return new if e[1] == alias else e
    if k in ('lit', 'const', 'this'):
        return e
    r = lambda x: replace_var_base(x, alias, new)  # noqa: E731
    if k == 'field':
        return ('field', r(e[1]), e[2])
    if k == 'index':
        return ('index', r(e[1]), r(e[2]))
    if k == 'set':
        return ('set', tuple(r(v) for v in e[1]))
    if k == 'range':
        return ('range', r(e[1]), r(e[2]), e[3], e[4])
    if k == 'un':
        return ('un', e[1], r(e[2]))
    if k == 'bin':
        return ('bin', e[1], r(e[2]), r(e[3]))
    if k == 'q':
        return ('q', e[1], e[2], r(e[3]), e[4] if e[2] == alias else r(e[4]))
    if k == 'call':
        return ('call', e[1], r(e[2]))
    if k == 'calln':
        return ('calln', e[1], tuple(r(a) for a in e[2]))
    raise ValueError(e)


def free_vars(e, bound=frozenset()):
    """Names of @variables that occur free in expression e."""
    k = e[0]
    if k == 'var':
        return set() if e[1] in bound else {e[1]}
    if k == 'q':
        return free_vars(e[3], bound) | free_vars(e[4], bound | {e[2]})
    out = set()
    for c in children(e):
        out |= free_vars(c, bound)
    return out


def all_vars(e):
    return {n[1] for n in walk(e) if n[0] == 'var'}


def has_this(e):
    return any(n == ('this',) for n in walk(e))


def simple_events(ev):
    if ev is None:
        return []
    if ev[0] == 'disj':
        out = []
        for x in ev[1]:
            out += simple_events(x)
        return out
    return [ev]


def event_positions(prop):
    """[(role, event)] in source order of roles: activator, trigger, behaviour, terminator."""
    _, _, sc, pt = prop
    out = []
    if sc[2] is not None:
        out.append(('activator', sc[2]))
    if pt[2] is not None:
        out.append(('trigger', pt[2]))
    out.append(('behaviour', pt[3]))
    if sc[3] is not None:
        out.append(('terminator', sc[3]))
    return out


def alias_topics(prop):
    """alias -> topic, as an external reference to the name means it. The terminator is read first: it may bind
    again a name of the pattern's events (only the activator's names are closed to it), nothing refers to a
    terminator's alias from outside, so the other binding is the one a reference means."""
    out = {}
    for _role, evn in sorted(event_positions(prop), key=lambda re: re[0] != 'terminator'):
        for e in simple_events(evn):
            if e[2] is not None:
                out[e[2]] = e[1]
    return out


def num_lit(v):
    if isinstance(v, int):
        return ('lit', 'int', str(v)) if v >= 0 else ('un', '-', ('lit', 'int', str(-v)))
    t = repr(float(v))
    if v < 0:
        return ('un', '-', ('lit', 'float', t[1:]))
    return ('lit', 'float', t)


TRUE = ('lit', 'bool', 'True')
FALSE = ('lit', 'bool', 'False')


def own(name):
    return ('field', ('this',), name)


def binop(op, l, r):
    return ('bin', op, l, r)
