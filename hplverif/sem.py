# Helpers shared by the evaluator-based checks (C08, C09, C10, C13, C14).

from hplverif import astx, core, ev, gen, lib, mast, small, values


def parse_case(inp):
    """inp: {'kind','text', 'pre'?: [steps]} -> library AST (after the optional pipeline of API functions) or None when
    the parser rejects the text or a step of the pipeline does not apply."""
    k, a = lib.outcome(inp['kind'], inp['text'])
    if k != 'ast':
        return None
    if inp.get('pre'):
        return apply_pre(a, inp['pre'])
    return a


PRE_STEPS = ('simplify', 'negate', 'split_first', 'split_last', 'refactor_1', 'refactor_2', 'join_self', 'this_var_this')


def apply_pre(a, pre):
    """The input of simplify need not come from the parser: apply a pipeline of other API functions to the parsed AST
    first (their results are predicates / expressions like any other). Returns None when a step does not apply."""
    from hpl import rewrite as rw
    from hpl.ast import Not

    for step in pre:
        pred = bool(getattr(a, 'is_predicate', False))
        boolean = pred or (getattr(a, 'is_expression', False) and a.data_type.value == 1)
        try:
            if step == 'simplify':
                # simplify folds constants eagerly: closed sub-terms beyond the size bound (power towers) never return
                if not ev.closed_ok(astx.to_model(a)):
                    return None
                a = rw.simplify(a)
            elif step == 'negate':
                if not boolean:
                    return None
                a = a.negate() if pred else Not(a)
            elif step in ('split_first', 'split_last'):
                if not boolean:
                    return None
                parts = rw.split_and(a)
                if not parts:
                    return None
                a = parts[0 if step == 'split_first' else -1]
            elif step in ('refactor_1', 'refactor_2'):
                if not boolean:
                    return None
                a = rw.refactor_reference(a, 'A')[0 if step == 'refactor_1' else 1]
            elif step == 'join_self':
                if not pred:
                    return None
                a = a.join(a.negate().negate())
            elif step == 'warm':
                # history only: a round of calls on this very object (and whatever they may leave behind on it or in the
                # library), results discarded; the object itself is what the next step derives from
                for alias in sorted({n.token[1:] for n in astx.preorder(a) if astx.cname(n) == 'HplVarReference'})[:3] + ['Zz']:
                    try:
                        rw.refactor_reference(a, alias)
                    except Exception:
                        pass
                for fn in (rw.split_and, str, hash, lambda x: x.external_references(), lambda x: x.contains_self_reference()):
                    try:
                        fn(a)
                    except Exception:
                        pass
                if ev.closed_ok(astx.to_model(a)):
                    try:
                        rw.simplify(a)
                    except Exception:
                        pass
            elif step.startswith('rename:'):
                # a copy with one alias renamed, made by the library itself (replace_var_reference is built on but())
                from hpl.ast import HplVarReference

                _, old, new = step.split(':')
                a = a.replace_var_reference(old, HplVarReference('@' + new))
            elif step.startswith('this_to_var:'):
                a = rw.replace_this_with_var(a, step.split(':')[1])
            elif step.startswith('widen_calls:'):
                # meaning changes (no check with a semantic oracle uses this step): totality and queries only
                from hplverif import lib as _lib

                b = _lib.widen_calls(a, int(step.split(':')[1]))
                if b is a:
                    return None
                a = b
            elif step == 'this_var_this':
                a = rw.replace_var_with_this(rw.replace_this_with_var(a, 'V9'), 'V9')
            else:
                raise ValueError(step)
        except (TypeError, ValueError, AssertionError, AttributeError, KeyError, IndexError, ZeroDivisionError, OverflowError):
            return None  # whether these functions fail is the business of C14
        except Exception:
            return None
    return a




def envs_for(model, inp, limit, extra=()):
    """Valuations over the leaves mentioned by model (and by the extra models)."""
    joint = model if not extra else ('set', (model,) + tuple(extra))
    return [ev.Env(t, v) for t, v in values.valuations(joint, inp.get('this'), inp.get('aliases') or {}, limit)]


def random_bool_case(ch, max_depth=5, kinds=('condition', 'predicate', 'expression')):
    kind = ch.pick(list(kinds))
    depth = ch.int(1, max_depth)
    if kind == 'expression':
        m, T, schema, aliases = gen.standalone_terms(ch, depth=depth, T='B')
    else:
        m, schema, aliases = gen.standalone_predicates(ch, depth=depth)
    # negation chains on top are rare in the base generator but matter for the rewriting rules
    if ch.int(0, 3) == 0:
        for _ in range(ch.int(1, 3)):
            m = ('un', 'not', m)
    text = mast.render(('pred', m) if kind == 'predicate' else m)
    # a third of the inputs are not parser output but what another API function made of it
    pre = []
    if ch.int(0, 2) == 0:
        pre = [ch.pick(BOOL_PRE_STEPS) for _ in range(ch.int(1, 2))]
    return {'kind': kind, 'text': text, 'this': schema, 'aliases': aliases, 'pre': pre}


BOOL_PRE_STEPS = ('simplify', 'simplify', 'negate', 'split_first', 'split_last', 'refactor_2', 'join_self', 'this_var_this')


def case_key(inp):
    return (inp['text'], tuple(inp['pre'])) if inp.get('pre') else inp['text']


_M64 = (1 << 64) - 1


def _mix(i, seed):
    x = (i + 0x9E3779B97F4A7C15 * (seed + 1)) & _M64
    x ^= x >> 30
    x = (x * 0xBF58476D1CE4E5B9) & _M64
    x ^= x >> 27
    x = (x * 0x94D049BB133111EB) & _M64
    return x ^ (x >> 31)


def small_cases(seed, stride, shard_no, nshards, boolean_only=True, quant_stride=None):
    """Deterministic slice of the small-scope families: yields (family, inp).

    quant_stride: a denser slice for the quantifier families (they are small and carry most rewriting rules).
    """
    fams = small.families()
    names = small.boolean_family_names()
    base = 0
    for f in fams:
        n = len(f)
        st = stride
        if quant_stride is not None and f.name.startswith('quant'):
            st = max(1, min(stride, quant_stride))
        if f.density == 'full':
            st = 1
        elif f.density != 1:
            st = max(1, min(st, stride // f.density))
        is_bool = f.name in names
        if boolean_only and not is_bool:
            base += n
            continue
        kind = 'condition' if is_bool else 'expression'
        # a pseudo-random slice (not a strided one: the families are products, and a stride that divides the size of the
        # fastest-varying parts would only ever visit the same few combinations of them)
        m = st * nshards
        for idx in range(n):
            if m > 1 and _mix(idx + base, seed) % m != shard_no:
                continue
            yield f.name, {'kind': kind, 'text': mast.render(f[idx]), 'this': small.SMALL_THIS, 'aliases': small.SMALL_ALIASES}
        base += n


def limit_for(tier):
    return 64 if tier == 'quick' else 256


def shape(model):
    ops = sorted({(n[1] if n[0] in ('bin', 'un', 'call', 'calln', 'q') else n[0]) for n in ev._walk(model) if n[0] in ('bin', 'un', 'call', 'calln', 'q', 'set', 'range')})
    return ','.join(ops)[:80]
