# Helpers shared by the evaluator-based checks (C08, C09, C10, C13, C14).

from hplverif import astx, core, ev, gen, lib, mast, small, values


def parse_case(inp):
    """inp: {'kind','text',...} -> library AST or None when the parser rejects it."""
    k, a = lib.outcome(inp['kind'], inp['text'])
    return a if k == 'ast' else None


def envs_for(model, inp, limit, extra=()):
    """Valuations over the leaves mentioned by model (and by the extra models)."""
    joint = model if not extra else ('set', (model,) + tuple(extra))
    return [ev.Env(t, v) for t, v in values.valuations(joint, inp.get('this'), inp.get('aliases') or {}, limit)]


def random_bool_case(ch, max_depth=5, kinds=('condition', 'predicate', 'expression')):
    kind = ch.pick(list(kinds))
    depth = ch.int(1, max_depth)
    if kind == 'expression':
        m, T, schema, aliases = gen.standalone_terms(ch, depth=depth, T='B')
    else:
        m, schema, aliases = gen.standalone_predicates(ch, depth=depth)
    # negation chains on top are rare in the base generator but matter for the rewriting rules
    if ch.int(0, 3) == 0:
        for _ in range(ch.int(1, 3)):
            m = ('un', 'not', m)
    text = mast.render(('pred', m) if kind == 'predicate' else m)
    return {'kind': kind, 'text': text, 'this': schema, 'aliases': aliases}


def small_cases(seed, stride, shard_no, nshards, boolean_only=True, quant_stride=None):
    """Deterministic slice of the small-scope families: yields (family, inp).

    quant_stride: a denser slice for the quantifier families (they are small and carry most rewriting rules).
    """
    fams = small.families()
    names = small.boolean_family_names()
    base = 0
    for f in fams:
        n = len(f)
        st = stride
        if quant_stride is not None and f.name.startswith('quant'):
            st = max(1, min(stride, quant_stride))
        is_bool = f.name in names
        if boolean_only and not is_bool:
            base += n
            continue
        kind = 'condition' if is_bool else 'expression'
        idx = (seed + base) % st + shard_no * st
        while idx < n:
            m = f[idx]
            idx += st * nshards
            yield f.name, {'kind': kind, 'text': mast.render(m), 'this': small.SMALL_THIS, 'aliases': small.SMALL_ALIASES}
        base += n


def limit_for(tier):
    return 64 if tier == 'quick' else 256


def shape(model):
    ops = sorted({(n[1] if n[0] in ('bin', 'un', 'call', 'calln', 'q') else n[0]) for n in ev._walk(model) if n[0] in ('bin', 'un', 'call', 'calln', 'q', 'set', 'range')})
    return ','.join(ops)[:80]
