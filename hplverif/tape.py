# A byte tape drawn once from Hypothesis (one cheap primitive draw) and a
# Chooser that turns it into generator decisions. All randomness still comes
# from Hypothesis (so shrinking and seeding work: smaller bytes pick earlier
# alternatives, which are the simpler ones by convention), but a case costs one
# draw instead of hundreds. An exhausted tape yields zeros, i.e. first options.

import struct

from hypothesis import strategies as st

TAPE_LEN = 768


class Chooser:
    def __init__(self, data):
        self.data = data
        self.i = 0

    def byte(self):
        if self.i < len(self.data):
            v = self.data[self.i]
            self.i += 1
            return v
        self.i += 1
        return 0

    @property
    def exhausted(self):
        return self.i > len(self.data)

    def int(self, lo, hi):
        n = hi - lo + 1
        if n <= 1:
            return lo
        if n <= 256:
            return lo + self.byte() % n
        v = 0
        k = n
        while k > 0:
            v = (v << 8) | self.byte()
            k >>= 8
        return lo + v % n

    def bool(self):
        return bool(self.byte() & 1)

    def pick(self, seq):
        seq = list(seq) if not isinstance(seq, (list, tuple, str)) else seq
        return seq[self.int(0, len(seq) - 1)]

    def sample(self, pool, min_size=0, max_size=None, unique=True):
        pool = list(pool)
        if max_size is None:
            max_size = len(pool)
        k = self.int(min_size, min(max_size, len(pool)) if unique else max_size)
        out = []
        for _ in range(k):
            if unique:
                if not pool:
                    break
                out.append(pool.pop(self.int(0, len(pool) - 1)))
            else:
                out.append(self.pick(pool))
        return out

    def ints(self, lo, hi, min_size, max_size):
        return [self.int(lo, hi) for _ in range(self.int(min_size, max_size))]

    def float64(self, lo=0.0, hi=1e308):
        """A finite double in [lo, hi] from 8 tape bytes (bit pattern), falling back to scaling."""
        raw = bytes(self.byte() for _ in range(8))
        v = struct.unpack('>d', raw)[0]
        if v != v or v in (float('inf'), float('-inf')):
            v = 0.0
        v = abs(v)
        if lo <= v <= hi:
            return v
        frac = int.from_bytes(raw, 'big') / float(1 << 64)
        return lo + frac * (hi - lo)

    def unit(self):
        """A double in [0, 1) with a full 53-bit mantissa."""
        raw = int.from_bytes(bytes(self.byte() for _ in range(7)), 'big')
        return (raw >> 3) / float(1 << 53)


def tapes(n=TAPE_LEN):
    return st.binary(min_size=n, max_size=n)


def from_tape(build, n=TAPE_LEN):
    """Strategy: build(Chooser(tape)) for a Hypothesis-drawn byte tape."""
    return tapes(n).map(lambda b: build(Chooser(b)))
