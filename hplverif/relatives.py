# Close relatives of a generated input: texts that a memo, an interning table or a cache keyed by something coarser than
# the input itself (printed form, ==, Python value, text without layout) would confuse with it. A check that runs a case
# and then its relatives in the same process exposes such state: every result is still judged by the check's own oracle.
import re

NUM = re.compile(r'(?<![\w.@"])(\d+)(\.\d*)?(?![\w."])')
ALIAS = re.compile(r'\bas\s+([A-Za-z_]\w*)')
STRING = re.compile(r'"(?:[^"\\\n]|\\.)*"')


def _outside_strings(text, fn):
    """Apply fn to the parts of text that are not inside string literals."""
    out, pos = [], 0
    for m in STRING.finditer(text):
        out.append(fn(text[pos : m.start()]))
        out.append(m.group(0))
        pos = m.end()
    out.append(fn(text[pos:]))
    return ''.join(out)


def respell_numbers(text):
    """2 <-> 2.0 (equal numbers, another kind of numeral)."""

    def f(m):
        whole, frac = m.group(1), m.group(2)
        if frac is None:
            return whole + '.0'
        if frac in ('.', '.0'):
            return whole
        return m.group(0)

    return _outside_strings(text, lambda part: NUM.sub(f, part))


def rename_aliases(text, suffix='_r'):
    """The same text with every event alias (binder and references) consistently renamed."""
    names = set(ALIAS.findall(_outside_strings(text, lambda p: p)))
    if not names:
        return text

    def f(part):
        for n in sorted(names, key=len, reverse=True):
            part = re.sub(r'\bas(\s+)' + re.escape(n) + r'\b', lambda m: 'as' + m.group(1) + n + suffix, part)
            part = re.sub('@' + re.escape(n) + r'\b', '@' + n + suffix, part)
        return part

    return _outside_strings(text, f)


def reannotate(text, tag='rel'):
    """The same property / file with other annotations on its first property."""
    lines = text.split('\n')
    head = [i for i, l in enumerate(lines) if l.lstrip().startswith('#')]
    if head and all(lines[i].count('#') == 1 for i in head):
        # drop the first annotation line that is a title or description; otherwise change the id
        for i in head:
            if re.match(r'\s*#\s*(title|description)\s*:', lines[i]):
                return '\n'.join(lines[:i] + lines[i + 1 :])
        for i in head:
            if re.match(r'\s*#\s*id\s*:', lines[i]):
                return '\n'.join(lines[:i] + [f'# id: {tag}_id'] + lines[i + 1 :])
    if '#' not in _outside_strings(text, lambda p: p):
        return f'# id: {tag}_id\n# title: "{tag} title"\n' + text
    return text


def texts(text):
    """Distinct relatives of a text (without the text itself)."""
    out = []
    for t in (respell_numbers(text), rename_aliases(text), reannotate(text)):
        if t != text and t not in out:
            out.append(t)
    return out
