#!/venv/bin/python
# Coverage-guided complement for the evaluator-based checks (thorough tier): an atheris/libFuzzer target whose byte
# input is the *tape* of the check's own generator (structure-aware by construction: every input is a well-typed
# predicate / expression with its schema), with the check's own semantic oracle inside the target. Coverage feedback
# over hpl.rewrite steers the mutations towards branches of the rewriter that random tapes rarely reach.
#
#   python -m hplverif.fuzz_tape <target> <runs> <seed> <corpus-dir> <findings-file>
#
# Findings (one per root-cause signature) are appended to the findings file as JSON lines with the replayable input of
# the sub-check; the target never crashes the fuzzer, so one campaign collects all buckets.

import json
import os
import sys


def targets():
    from hplverif import sem
    from hplverif.checks import c08, c09, c10, c13, c14
    from hplverif.tape import Chooser

    def t_c08(data):
        inp = c08.random_cases(Chooser(data))
        return 'simplify', inp, lambda: c08.check_case(inp, limit=24)

    def t_c09(data):
        inp = sem.random_bool_case(Chooser(data))
        return 'split_and', inp, lambda: c09.check_case(inp, limit=24)

    def t_c10(data):
        ch = Chooser(data)
        inp = sem.random_bool_case(ch, kinds=('condition', 'predicate', 'expression'))
        aliases = sorted(inp.get('aliases') or {}) + ['Zz']
        inp = dict(inp, alias=aliases[ch.int(0, len(aliases) - 1)])
        return 'refactor', inp, lambda: c10.check_case(inp, limit=24)

    def t_c13(data):
        inp = c13.gen_combinators(Chooser(data))
        return 'combinators', inp, lambda: c13.sub_combinators(inp, 24)

    def t_c14(data):
        inp = c08.random_cases(Chooser(data))
        inp = {k: v for k, v in inp.items() if k != 'pre'}
        return 'expr', inp, lambda: c14.sub_expr(inp)

    return {'C08': t_c08, 'C09': t_c09, 'C10': t_c10, 'C13': t_c13, 'C14': t_c14}


def main():
    target, runs, seed, corpus, findings = sys.argv[1], int(sys.argv[2]), int(sys.argv[3]), sys.argv[4], sys.argv[5]
    here = os.path.dirname(os.path.dirname(os.path.abspath(__file__)))
    sys.path.insert(0, here)
    from hplverif import core

    sys.path.insert(0, os.path.join(core.REPO_DIR, 'src'))
    deps = os.path.join(core.VERIF_DIR, '.deps')
    if deps not in sys.path:
        sys.path.append(deps)
    import atheris

    with atheris.instrument_imports(include=['hpl']):
        import hpl.parser  # noqa
        import hpl.rewrite  # noqa
    fn = targets()[target]
    seen = set()
    stats = {'execs': 0, 'outcomes': {}}

    def one(data):
        stats['execs'] += 1
        if stats['execs'] % 200 == 0 or stats['execs'] >= runs - 1:
            with open(findings + '.stats', 'w') as f:  # libFuzzer ends the process without running finalisers
                json.dump(stats, f)
        try:
            sub, inp, run = fn(bytes(data))
        except core.HarnessError:
            raise
        except Exception:
            stats['outcomes']['generator-error'] = stats['outcomes'].get('generator-error', 0) + 1
            return
        try:
            r = run()
            r = r if isinstance(r, str) else 'checked'
            stats['outcomes'][r] = stats['outcomes'].get(r, 0) + 1
        except core.Violation as v:
            if v.sig not in seen:
                seen.add(v.sig)
                with open(findings, 'a') as f:
                    f.write(json.dumps({'sub': v.sub, 'sig': v.sig, 'input': v.input, 'message': v.message}) + '\n')

    os.makedirs(corpus, exist_ok=True)
    atheris.Setup([sys.argv[0], f'-runs={runs}', f'-seed={seed or 1}', '-max_len=768', '-len_control=0', '-verbosity=0', '-print_final_stats=0', corpus], one)
    atheris.Fuzz()


if __name__ == '__main__':
    main()
