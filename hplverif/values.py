# Valuation grids: concrete messages for a schema, varying exactly the leaves a
# term mentions. Deterministic: sampling uses a PRNG seeded by a hash of the
# term, so a replayed input sees the same valuations.

import itertools
import random
from fractions import Fraction

from hplverif import core, mast

NUM_POOL = [0, 1, -1, 2, Fraction(1, 2)]
BOOL_POOL = [False, True]
STR_POOL = ['"a"', '"b"']
NUM_ARRAYS = [[], [0], [1, 2], [2, -1], [1, 1], [Fraction(1, 2), 0]]
BOOL_ARRAYS = [[], [True], [False, True], [False, False]]
STR_ARRAYS = [[], ['"a"'], ['"a"', '"b"'], ['"b"', '"b"']]

# "Wide" pools: values outside the grid (larger magnitudes, other fractions, longer arrays, other strings).
# A few valuations drawn from them are appended to every grid, so that a rewrite that is only wrong away
# from {-1, 0, 1, 2, 1/2} or only for arrays with three or more elements is still visible.
WIDE_NUM_POOL = [3, -2, 10, Fraction(1, 3), 7, Fraction(-1, 2), 100, Fraction(5, 2), -3, 4]
WIDE_STR_POOL = ['""', '"ab"', '"A"', '"a b"']
WIDE_NUM_ARRAYS = [[1, 2, 3], [3, 3, 3], [0, 0, 1], [-2, 10, Fraction(1, 3), 7], [5], [2, 1, 0]]
WIDE_BOOL_ARRAYS = [[True, True, False], [False, True, True, True], [True, True, True]]
WIDE_STR_ARRAYS = [['"a"', '"b"', '"a"'], ['""'], ['"ab"', '"a"', '"b"']]


def pool_for(ft, wide=False):
    k = ft[0]
    if k == 'bool':
        return BOOL_POOL
    if k == 'num':
        return WIDE_NUM_POOL if wide else NUM_POOL
    if k == 'str':
        return WIDE_STR_POOL if wide else STR_POOL
    if k == 'arr':
        ek = ft[1][0]
        n = ft[2]
        if wide:
            base = {'bool': WIDE_BOOL_ARRAYS, 'num': WIDE_NUM_ARRAYS, 'str': WIDE_STR_ARRAYS}.get(ek)
        else:
            base = {'bool': BOOL_ARRAYS, 'num': NUM_ARRAYS, 'str': STR_ARRAYS}.get(ek)
        if base is None:
            return None
        if n >= 0:
            # fixed-length arrays have exactly n elements
            elem = pool_for(ft[1], wide)
            return [[elem[(i + s) % len(elem)] for i in range(n)] for s in range(min(len(elem), 4))]
        return base
    return None


def default_value(ft, consts_value=None):
    k = ft[0]
    if k == 'bool':
        return False
    if k == 'num':
        return 0
    if k == 'str':
        return '"a"'
    if k == 'arr':
        n = ft[2] if ft[2] >= 0 else 1
        return [default_value(ft[1]) for _ in range(n)]
    if k == 'msg':
        return default_message(ft[1])
    raise ValueError(ft)


def default_message(schema):
    msg = {name: default_value(ft) for name, ft in schema['fields'].items()}
    for name, (ft, v) in schema['consts'].items():
        msg[name] = v
    return msg


def leaf_slots(schema, prefix=()):
    """[(path, ftype)] for every variable leaf of a schema; arrays of messages expand to 2 elements."""
    out = []
    for name, ft in schema['fields'].items():
        p = prefix + (name,)
        if ft[0] == 'msg':
            out += leaf_slots(ft[1], p)
        elif ft[0] == 'arr' and ft[1][0] == 'msg':
            n = ft[2] if ft[2] >= 0 else 2
            for i in range(n):
                out += leaf_slots(ft[1][1], p + (i,))
        else:
            out.append((p, ft))
    return out


def build_message(schema, assignment, prefix=()):
    msg = {}
    for name, ft in schema['fields'].items():
        p = prefix + (name,)
        if ft[0] == 'msg':
            msg[name] = build_message(ft[1], assignment, p)
        elif ft[0] == 'arr' and ft[1][0] == 'msg':
            n = ft[2] if ft[2] >= 0 else assignment.get(p + ('#len',), 2)
            msg[name] = [build_message(ft[1][1], assignment, p + (i,)) for i in range(n)]
        else:
            msg[name] = assignment[p] if p in assignment else default_value(ft)
    for name, (ft, v) in schema['consts'].items():
        msg[name] = v
    return msg


def mentioned_fields(m):
    """Field names mentioned per root: {None or alias: set of first-level..deep names} (coarse: any name)."""
    names = set()
    for n in mast.walk(m) if mast.is_expr(m) else []:
        if n[0] == 'field':
            names.add(n[2])
    return names


def valuations(term, this_schema, alias_schemas, limit, extra_key='', wide=None):
    """Yield ev.Env-ready (this, vars) pairs over a grid of the leaves the term mentions.

    Full Cartesian product when it has at most `limit` points, otherwise the
    corners (all-first, all-second, ...) plus a deterministic sample. Then `wide`
    (default limit // 16, at least 6) valuations mixing the wide pools with the grid pools.
    """
    yield from _grid(term, this_schema, alias_schemas, limit, extra_key)
    nwide = max(6, limit // 16) if wide is None else wide
    if nwide:
        yield from _wide(term, this_schema, alias_schemas, nwide, extra_key)


def _slots(term, this_schema, alias_schemas, wide):
    names = mentioned_fields(term)
    roots = []
    if this_schema is not None:
        roots.append((None, this_schema))
    for a in sorted(alias_schemas):
        roots.append((a, alias_schemas[a]))
    slots = []  # (root, path, pool)
    for root, sc in roots:
        for path, ft in leaf_slots(sc):
            if path[-1] not in names and not any(isinstance(x, str) and x in names for x in path):
                continue
            pool = pool_for(ft)
            if pool:
                if wide:
                    pool = list(pool_for(ft, True)) + list(pool)
                slots.append((root, path, pool))
    return roots, slots


def _make(roots, slots, choice):
    per_root = {}
    for (root, path, pool), c in zip(slots, choice):
        per_root.setdefault(root, {})[path] = pool[c % len(pool)]
    this = None
    vars_ = {}
    for root, sc in roots:
        msg = build_message(sc, per_root.get(root, {}))
        if root is None:
            this = msg
        else:
            vars_[root] = msg
    return this, vars_


def _wide(term, this_schema, alias_schemas, n, extra_key=''):
    roots, slots = _slots(term, this_schema, alias_schemas, True)
    if not slots:
        return
    rng = random.Random(core.h64((repr(term), extra_key, 'wide')))
    seen = set()
    # first the "diagonals" over the wide part of each pool, then a sample biased to the wide values
    for c in range(3):
        choice = tuple(c for _ in slots)
        if choice not in seen:
            seen.add(choice)
            yield _make(roots, slots, choice)
    tries = 0
    while len(seen) < n and tries < 4 * n:
        tries += 1
        choice = tuple(rng.randrange(len(p)) for _, _, p in slots)
        if choice not in seen:
            seen.add(choice)
            yield _make(roots, slots, choice)


def _grid(term, this_schema, alias_schemas, limit, extra_key=''):
    names = mentioned_fields(term)
    roots = []
    if this_schema is not None:
        roots.append((None, this_schema))
    for a in sorted(alias_schemas):
        roots.append((a, alias_schemas[a]))
    slots = []  # (root, path, pool)
    for root, sc in roots:
        for path, ft in leaf_slots(sc):
            if path[-1] not in names and not any(isinstance(x, str) and x in names for x in path):
                continue
            pool = pool_for(ft)
            if pool:
                slots.append((root, path, pool))
    sizes = [len(p) for _, _, p in slots]
    total = 1
    for s in sizes:
        total *= s
        if total > 10**9:
            break

    def make(choice):
        per_root = {}
        for (root, path, pool), c in zip(slots, choice):
            per_root.setdefault(root, {})[path] = pool[c % len(pool)]
        this = None
        vars_ = {}
        for root, sc in roots:
            msg = build_message(sc, per_root.get(root, {}))
            if root is None:
                this = msg
            else:
                vars_[root] = msg
        return this, vars_

    if total <= limit:
        for choice in itertools.product(*[range(s) for s in sizes]):
            yield make(choice)
        return
    rng = random.Random(core.h64((repr(term), extra_key)))
    seen = set()
    maxsize = max(sizes) if sizes else 1
    for c in range(maxsize):
        choice = tuple(c % s for s in sizes)
        if choice not in seen:
            seen.add(choice)
            yield make(choice)
    while len(seen) < limit:
        choice = tuple(rng.randrange(s) for s in sizes)
        if choice not in seen:
            seen.add(choice)
            yield make(choice)
