# Reference evaluator EV over model trees (see astx.to_model for library ASTs).
#
# ev(m, env) -> bool | number (int / Fraction / float) | str | list | dict
# raises Undef   (strict: any undefined sub-term makes the whole term undefined)
#        Ambig   (the documentation does not fix the meaning: oracle abstains)
#        IllConditioned (a comparison decided by a near-tie: float rounding could flip it)
#
# env = Env(this=<message dict or None>, vars={name: value})
# Messages are dicts, arrays are lists, strings are stored verbatim as the
# library stores string literals (with their quotes).

import math
from fractions import Fraction

REL_TOL = 1e-9
MAX_MAG = 1e40
MAX_EXP = 64


class Undef(Exception):
    pass


class Ambig(Exception):
    pass


class IllConditioned(Exception):
    pass


class Env:
    def __init__(self, this=None, vars=None):
        self.this = this
        self.vars = dict(vars or {})

    def bind(self, name, value):
        e = Env(self.this, self.vars)
        e.vars[name] = value
        return e


def is_num(v):
    return isinstance(v, (int, float, Fraction)) and not isinstance(v, bool)


def norm(v):
    """Normalise a number: integral Fractions to int, reject non-finite and huge values."""
    if isinstance(v, bool):
        return v
    if isinstance(v, Fraction):
        if v.denominator == 1:
            v = int(v)
        elif v.denominator > 10**60:
            v = float(v)
    if isinstance(v, float):
        if math.isnan(v) or math.isinf(v):
            raise Undef('non-finite number')
        if v == 0:
            return 0  # the sign of a zero is not part of the meaning (atan2(0, -0.0) vs atan2(0, 0))
        if abs(v) > MAX_MAG:
            raise Undef('magnitude out of the evaluator domain')
    elif isinstance(v, int) and abs(v) > 10**40:
        raise Undef('magnitude out of the evaluator domain')
    return v


def close(a, b):
    if a == b:
        return True
    try:
        fa, fb = float(a), float(b)
    except OverflowError:
        return False
    return abs(fa - fb) <= REL_TOL * max(abs(fa), abs(fb), 1e-300)


def num_cmp(a, b):
    """-1, 0, 1; near-ties that are not exact ties are ill-conditioned."""
    if a == b:
        return 0
    if close(a, b):
        raise IllConditioned(f'{a!r} ~ {b!r}')
    return -1 if a < b else 1


def val_eq(a, b):
    if is_num(a) and is_num(b):
        return num_cmp(a, b) == 0
    if isinstance(a, bool) != isinstance(b, bool) or isinstance(a, str) != isinstance(b, str):
        # values of different primitive kinds are never compared by well-typed terms
        raise Ambig('comparison across kinds')
    return a == b


def same_value(a, b):
    """Final comparison of two results (original vs rewritten)."""
    if isinstance(a, RangeV) or isinstance(b, RangeV):
        return (isinstance(a, RangeV) and isinstance(b, RangeV) and same_value(a.lo, b.lo) and same_value(a.hi, b.hi)
                and bool(a.xlo) == bool(b.xlo) and bool(a.xhi) == bool(b.xhi))
    if isinstance(a, SetV) or isinstance(b, SetV):
        if not (isinstance(a, SetV) and isinstance(b, SetV)):
            return False
        da, db = a.distinct(), b.distinct()
        return len(da) == len(db) and all(any(same_value(x, y) for y in db) for x in da)
    if isinstance(a, list) or isinstance(b, list):
        return isinstance(a, list) and isinstance(b, list) and len(a) == len(b) and all(same_value(x, y) for x, y in zip(a, b))
    if isinstance(a, dict) or isinstance(b, dict):
        return isinstance(a, dict) and isinstance(b, dict) and a.keys() == b.keys() and all(same_value(a[k], b[k]) for k in a)
    if is_num(a) and is_num(b):
        return close(a, b)
    if isinstance(a, bool) or isinstance(b, bool):
        return isinstance(a, bool) and isinstance(b, bool) and a == b
    if isinstance(a, str) or isinstance(b, str):
        return isinstance(a, str) and isinstance(b, str) and a == b
    return type(a) is type(b) and a == b


def _exact(v):
    if isinstance(v, float):
        return v
    return Fraction(v)


def _arith(op, a, b):
    if not (is_num(a) and is_num(b)):
        raise Ambig(f'arithmetic on non-numbers {a!r} {b!r}')
    try:
        if op == '+':
            return norm(_exact(a) + _exact(b))
        if op == '-':
            return norm(_exact(a) - _exact(b))
        if op == '*':
            return norm(_exact(a) * _exact(b))
        if op == '/':
            if b == 0:
                raise Undef('division by zero')
            return norm(_exact(a) / _exact(b))
        if op == '**':
            return _power(a, b)
    except OverflowError:
        raise Undef('overflow')
    raise ValueError(op)


def _power(a, b):
    if isinstance(b, (int, float, Fraction)) and not (isinstance(b, float) and (b != b or b in (math.inf, -math.inf))) and b == int(b) and abs(b) > MAX_EXP:
        # the same for an exponent written 100 or 100.0: outside the domain on which the oracle commits itself
        raise Ambig('exponent out of the evaluator domain')
    if isinstance(b, float) and b == int(b) and abs(b) <= MAX_EXP:
        bi = int(b)
    elif isinstance(b, (int, Fraction)) and Fraction(b).denominator == 1:
        bi = int(b)
    else:
        bi = None
    if bi is not None:
        if abs(bi) > MAX_EXP:
            raise Undef('exponent out of the evaluator domain')
        if a == 0 and bi < 0:
            raise Undef('0 ** negative')
        if isinstance(a, float):
            return norm(a**bi)
        return norm(Fraction(a) ** bi)
    fa, fb = float(a), float(b)
    if fa < 0:
        raise Undef('negative base with fractional exponent')
    if fa == 0 and fb < 0:
        raise Undef('0 ** negative')
    try:
        return norm(fa**fb)
    except (OverflowError, ZeroDivisionError):
        raise Undef('overflow')


def _int_range(lo, hi, xlo, xhi):
    for b in (lo, hi):
        if not is_num(b):
            raise Ambig('non-numeric range bound')
        if isinstance(b, float) and b != int(b):
            raise Ambig('non-integer range bound')
        if isinstance(b, Fraction) and b.denominator != 1:
            raise Ambig('non-integer range bound')
    lo, hi = int(lo), int(hi)
    if lo > hi:
        raise Ambig('reversed range')
    a = lo + (1 if xlo else 0)
    b = hi - (1 if xhi else 0)
    if b - a > 10000:
        raise Undef('range too large for the evaluator')
    return list(range(a, b + 1))


class RangeV:
    def __init__(self, lo, hi, xlo, xhi):
        self.lo, self.hi, self.xlo, self.xhi = lo, hi, xlo, xhi

    def contains(self, x):
        if not is_num(x):
            raise Ambig('non-number in range test')
        c1 = num_cmp(x, self.lo)
        c2 = num_cmp(x, self.hi)
        ok1 = c1 > 0 or (c1 == 0 and not self.xlo)
        ok2 = c2 < 0 or (c2 == 0 and not self.xhi)
        return ok1 and ok2

    def ints(self):
        return _int_range(self.lo, self.hi, self.xlo, self.xhi)


class SetV:
    def __init__(self, values):
        self.values = list(values)

    def distinct(self):
        out = []
        for v in self.values:
            if not any(_prim_eq(v, w) for w in out):
                out.append(v)
        return out

    def has_duplicates(self):
        return len(self.distinct()) != len(self.values)


def _prim_eq(a, b):
    if is_num(a) and is_num(b):
        return num_cmp(a, b) == 0
    if isinstance(a, bool) or isinstance(b, bool):
        return isinstance(a, bool) and isinstance(b, bool) and a == b
    if isinstance(a, str) or isinstance(b, str):
        return isinstance(a, str) and isinstance(b, str) and a == b
    return type(a) is type(b) and a == b


def elements(c, multiplicity_matters=False):
    """Elements of a compound value as a list."""
    if isinstance(c, list):
        return list(c)
    if isinstance(c, SetV):
        if multiplicity_matters and c.has_duplicates():
            raise Ambig('aggregate over a set literal with coinciding element values')
        return c.distinct()
    if isinstance(c, RangeV):
        return c.ints()
    raise Ambig(f'not a compound value: {c!r}')


def member(x, c):
    if isinstance(c, RangeV):
        return c.contains(x)
    if isinstance(c, (list, SetV)):
        vals = c if isinstance(c, list) else c.values
        return any(_prim_eq(x, v) for v in vals)
    raise Ambig(f'not a compound value: {c!r}')


def _need_nums(vals):
    for v in vals:
        if not is_num(v):
            raise Ambig('aggregate over non-numbers')
    return vals


def _as_int(v, what):
    if isinstance(v, float):
        if v != int(v):
            raise Undef(what)
        return int(v)
    f = Fraction(v)
    if f.denominator != 1:
        raise Undef(what)
    return int(f)


def _float_fn(fn, x):
    try:
        return norm(fn(float(x)))
    except (ValueError, OverflowError):
        raise Undef('domain error')


def call(name, args):
    a = args[0] if args else None
    if name == 'abs':
        _need_nums([a])
        return norm(abs(a))
    if name == 'bool':
        if isinstance(a, (bool, str)) or is_num(a):
            return bool(a)
        raise Ambig('bool() of a non-primitive')
    if name in ('int', 'float'):
        if isinstance(a, bool):
            return int(a)
        if is_num(a):
            if name == 'float':
                return a
            return math.trunc(a)
        if isinstance(a, str):
            try:
                return norm(int(a) if name == 'int' else float(a))
            except ValueError:
                raise Undef(f'{name}() of a non-numeric string')
        raise Ambig(f'{name}() of a non-primitive')
    if name == 'str':
        if isinstance(a, bool):
            return str(a)
        if isinstance(a, str):
            return a
        if is_num(a):
            if isinstance(a, int):
                return str(a)
            # how a non-integral number prints depends on its float/int representation
            raise Ambig('str() of a non-integer number')
        raise Ambig('str() of a non-primitive')
    if name == 'len':
        return len(elements(a, multiplicity_matters=True))
    if name in ('sum', 'prod', 'max', 'min', 'gcd') and len(args) == 1:
        if not isinstance(a, (list, SetV, RangeV)):
            raise Ambig('aggregate over a non-compound value')
        vals = _need_nums(elements(a, multiplicity_matters=name in ('sum', 'prod')))
        return _aggregate(name, vals)
    if name in ('max', 'min', 'gcd'):
        return _aggregate(name, _need_nums(list(args)))
    if name == 'sqrt':
        _need_nums([a])
        if a < 0:
            raise Undef('sqrt of a negative number')
        return _float_fn(math.sqrt, a)
    if name == 'ceil':
        _need_nums([a])
        return math.ceil(a)
    if name == 'floor':
        _need_nums([a])
        return math.floor(a)
    if name in ('sin', 'cos', 'tan', 'asin', 'acos', 'atan'):
        _need_nums([a])
        return _float_fn(getattr(math, name), a)
    if name == 'deg':
        _need_nums([a])
        return _float_fn(math.degrees, a)
    if name == 'rad':
        _need_nums([a])
        return _float_fn(math.radians, a)
    if name == 'log':
        _need_nums(list(args))
        x, base = args
        if x <= 0 or base <= 0 or base == 1:
            raise Undef('log domain')
        try:
            return norm(math.log10(float(x)) if base == 10 else math.log(float(x), float(base)))
        except (ValueError, ZeroDivisionError, OverflowError):
            raise Undef('log domain')
    if name == 'atan2':
        _need_nums(list(args))
        if args[0] == 0 and args[1] == 0:
            raise Ambig('atan2(0, 0)')
        return norm(math.atan2(float(args[0]), float(args[1])))
    if name in ('roll', 'pitch', 'yaw'):
        raise Ambig('quaternion functions are not interpreted')
    raise Ambig(f'unknown function {name}')


def _aggregate(name, vals):
    if name == 'sum':
        out = 0
        for v in vals:
            out = _arith('+', out, v)
        return out
    if name == 'prod':
        out = 1
        for v in vals:
            out = _arith('*', out, v)
        return out
    if name in ('max', 'min'):
        if not vals:
            raise Undef(f'{name} of an empty collection')
        best = vals[0]
        for v in vals[1:]:
            c = num_cmp(v, best)
            if (c > 0) == (name == 'max') and c != 0:
                best = v
        return best
    if name == 'gcd':
        if not vals:
            raise Ambig('gcd of an empty collection')
        ints = [_as_int(v, 'gcd of a non-integer') for v in vals]
        return math.gcd(*ints)
    raise ValueError(name)


def _raise_pending(pending):
    """Several sides are not defined: an abstention (ambiguous / ill-conditioned) outranks undefinedness,
    because a verdict 'undefined' is not reliable when the oracle could not interpret a sibling."""
    if not pending:
        return
    for e in pending:
        if isinstance(e, (Ambig, IllConditioned)):
            raise e
    raise pending[0]


def _connective(op, ma, mb, env):
    """Order-independent three-valued connectives (parallel/Kleene): a side that decides the
    result makes it defined even when the other side is undefined, whichever side it is.
    The quantifiers follow the same rule. Arithmetic and comparisons stay strict."""

    def side(m):
        try:
            v = ev(m, env)
        except (Undef, Ambig, IllConditioned) as e:
            return e
        if not isinstance(v, bool):
            raise Ambig('connective on non-booleans')
        return v

    a, b = side(ma), side(mb)
    if op == 'iff':
        _raise_pending([x for x in (a, b) if isinstance(x, Exception)])
        return a == b
    if op == 'implies':
        a = (not a) if isinstance(a, bool) else a
        op = 'or'
    decisive = op == 'or'  # or: one True decides; and: one False decides
    if a is decisive or b is decisive:
        return decisive
    _raise_pending([x for x in (a, b) if isinstance(x, Exception)])
    return not decisive


def ev(m, env):
    k = m[0]
    if k == 'lit':
        v = m[2]
        if m[1] in ('int', 'float'):
            return norm(v)
        return v
    if k == 'this':
        if env.this is None:
            raise Undef('no current message')
        return env.this
    if k == 'var':
        if m[1] not in env.vars:
            raise Undef(f'unbound variable @{m[1]}')
        return env.vars[m[1]]
    if k == 'field':
        base = ev(m[1], env)
        if not isinstance(base, dict):
            raise Ambig('field access on a non-message')
        if m[2] not in base:
            raise Undef(f'missing field {m[2]}')
        return base[m[2]]
    if k == 'index':
        base = ev(m[1], env)
        i = ev(m[2], env)
        if not isinstance(base, list):
            raise Ambig('index access on a non-array')
        if not is_num(i):
            raise Ambig('non-numeric index')
        ii = _as_int(i, 'non-integer index')
        if ii < 0 or ii >= len(base):
            raise Undef('index out of range')
        return base[ii]
    if k == 'set':
        return SetV([ev(v, env) for v in m[1]])
    if k == 'range':
        lo, hi = ev(m[1], env), ev(m[2], env)
        if not (is_num(lo) and is_num(hi)):
            raise Ambig('non-numeric range bound')
        return RangeV(lo, hi, m[3], m[4])
    if k == 'un':
        v = ev(m[2], env)
        if m[1] == 'not':
            if not isinstance(v, bool):
                raise Ambig('not of a non-boolean')
            return not v
        if not is_num(v):
            raise Ambig('minus of a non-number')
        return norm(-v)
    if k == 'bin':
        op = m[1]
        if op in ('and', 'or', 'implies', 'iff'):
            return _connective(op, m[2], m[3], env)
        a = ev(m[2], env)
        b = ev(m[3], env)
        if op == '=':
            return val_eq(a, b)
        if op == '!=':
            return not val_eq(a, b)
        if op in ('<', '<=', '>', '>='):
            if not (is_num(a) and is_num(b)):
                raise Ambig('ordering of non-numbers')
            c = num_cmp(a, b)
            return {'<': c < 0, '<=': c <= 0, '>': c > 0, '>=': c >= 0}[op]
        if op == 'in':
            return member(a, b)
        return _arith(op, a, b)
    if k == 'q':
        dom = elements(ev(m[3], env))
        decisive = m[1] == 'exists'  # exists: one True decides; forall: one False decides
        pending = []
        for x in dom:
            # nested quantifiers over long ranges (the inner domain may be built on the outer variable) multiply: one
            # evaluation gets a budget of body evaluations, beyond it the evaluator has no opinion
            _budget[0] -= 1
            if _budget[0] < 0:
                raise Ambig('evaluation budget for quantifier bodies used up')
            try:
                r = ev(m[4], env.bind(m[2], x))
            except (Undef, Ambig, IllConditioned) as e:
                pending.append(e)
                continue
            if not isinstance(r, bool):
                raise Ambig('quantifier body is not boolean')
            if r is decisive:
                return decisive
        _raise_pending(pending)
        return not decisive
    if k == 'call':
        arg = ev(m[2], env)
        if m[1] == 'str' and is_num(arg) and m[2][0] not in ('lit', 'field', 'index', 'var'):
            # how a computed number prints depends on its int/float representation
            raise Ambig('str() of a computed number')
        if m[1] == 'str' and m[2][0] == 'lit' and m[2][1] == 'float':
            # str(0.0) is "0.0" for the library's float and "0" for the oracle's exact rational: no claim
            raise Ambig('str() of a float literal')
        return call(m[1], [arg])
    if k == 'calln':
        return call(m[1], [ev(a, env) for a in m[2]])
    if k == 'const':
        raise Undef('named constant in a model tree (convert with astx.to_model first)')
    raise ValueError(f'cannot evaluate {m!r}')


CONST_VALUES = {'PI': math.pi, 'E': math.e, 'INF': math.inf, 'NAN': math.nan}


def valued(m):
    """Generator model tree (lexeme literals, named constants) -> value model tree."""
    k = m[0]
    if k == 'lit':
        kind, text = m[1], m[2]
        if kind == 'bool':
            return ('lit', 'bool', text == 'True' if isinstance(text, str) else bool(text))
        if kind == 'int':
            return ('lit', 'int', int(text))
        if kind == 'float':
            return ('lit', 'float', float(text))
        return ('lit', 'str', text)
    if k == 'const':
        return ('lit', 'float', CONST_VALUES[m[1]])
    if k in ('this', 'var'):
        return m
    if k == 'field':
        return ('field', valued(m[1]), m[2])
    if k == 'index':
        return ('index', valued(m[1]), valued(m[2]))
    if k == 'set':
        return ('set', tuple(valued(v) for v in m[1]))
    if k == 'range':
        return ('range', valued(m[1]), valued(m[2]), m[3], m[4])
    if k == 'un':
        return ('un', m[1], valued(m[2]))
    if k == 'bin':
        return ('bin', m[1], valued(m[2]), valued(m[3]))
    if k == 'q':
        return ('q', m[1], m[2], valued(m[3]), valued(m[4]))
    if k == 'call':
        return ('call', m[1], valued(m[2]))
    if k == 'calln':
        return ('calln', m[1], tuple(valued(a) for a in m[2]))
    raise ValueError(m)


STEP_BUDGET = 50000
_budget = [STEP_BUDGET]


def try_ev(m, env):
    """('ok', value) | ('undef', reason) | ('ambig', reason) | ('illcond', reason)"""
    _budget[0] = STEP_BUDGET
    try:
        return ('ok', ev(m, env))
    except Undef as e:
        return ('undef', str(e))
    except Ambig as e:
        return ('ambig', str(e))
    except IllConditioned as e:
        return ('illcond', str(e))
    except (OverflowError, RecursionError) as e:
        return ('undef', type(e).__name__)


def closed_ok(m, max_mag=10**6, max_exp=16):
    """Pre-screen for eager constant folding: every closed sub-term must be small.

    A size bound on generated inputs (simplify folds constants eagerly and
    `10 ** (10 ** 10)` never returns); returns False when some reference-free
    sub-term is undefined-by-size, has a magnitude above max_mag or an integer
    exponent above max_exp.
    """
    from hplverif import mast

    def closed(n):
        return not any(x[0] in ('this', 'var') for x in _walk(n))

    for n in _walk(m):
        if n[0] == 'bin' and n[1] == '**':
            r = n[3]
            if closed(r):
                st, v = try_ev(r, Env())
                if st == 'ok' and is_num(v) and abs(v) > max_exp:
                    return False
        if n[0] in ('bin', 'un', 'call', 'calln') and closed(n):
            st, v = try_ev(n, Env())
            if st == 'ok' and is_num(v) and abs(v) > max_mag:
                return False
            if st in ('undef', 'ambig') and 'domain' in str(v) and 'evaluator' in str(v):
                return False
        if n[0] == 'range' and closed(n):
            st, v = try_ev(n, Env())
            if st == 'ok' and abs(float(v.hi) - float(v.lo)) > 1000:
                return False
    return True


def _walk(m):
    stack = [m]
    while stack:
        x = stack.pop()
        yield x
        k = x[0]
        if k in ('field',):
            stack.append(x[1])
        elif k == 'index':
            stack += [x[1], x[2]]
        elif k == 'set':
            stack += list(x[1])
        elif k == 'range':
            stack += [x[1], x[2]]
        elif k == 'un':
            stack.append(x[2])
        elif k == 'bin':
            stack += [x[2], x[3]]
        elif k == 'q':
            stack += [x[3], x[4]]
        elif k == 'call':
            stack.append(x[2])
        elif k == 'calln':
            stack += list(x[2])
