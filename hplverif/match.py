# Matcher: compare the intended model tree of a text with the AST the library
# built for it (oracle of C01 / C18). Walks the library AST through astx slots.

import math

from hplverif import astx, mast

CONSTS = {'PI': math.pi, 'E': math.e, 'INF': math.inf, 'NAN': math.nan}

SCOPE_NAMES = {'globally': 'GLOBAL', 'after': 'AFTER', 'until': 'UNTIL', 'after_until': 'AFTER_UNTIL'}
PATTERN_NAMES = {
    'existence': 'EXISTENCE',
    'absence': 'ABSENCE',
    'response': 'RESPONSE',
    'prevention': 'PREVENTION',
    'requirement': 'REQUIREMENT',
}


def unquote(lexeme):
    body = lexeme[1:-1]
    out = []
    i = 0
    while i < len(body):
        if body[i] == '\\' and i + 1 < len(body):
            out.append(body[i + 1])
            i += 2
        else:
            out.append(body[i])
            i += 1
    return ''.join(out)


def num_value(text):
    try:
        return int(text)
    except ValueError:
        return float(text)


def _num_eq(a, b):
    if isinstance(a, float) and math.isnan(a):
        return isinstance(b, float) and math.isnan(b)
    if isinstance(b, float) and math.isnan(b):
        return False
    if a == b:
        return True
    if isinstance(a, float) or isinstance(b, float):
        if (isinstance(a, float) and math.isinf(a)) or (isinstance(b, float) and math.isinf(b)):
            return False
        try:
            return abs(a - b) <= 1e-12 * max(abs(a), abs(b))
        except OverflowError:  # an integer beyond the float range next to a float: not the same number
            return False
    return False


def match_expr(m, a, path, diffs):
    k = m[0]
    c = astx.cname(a)

    def bad(msg):
        diffs.append(f'{path}: {msg}')

    if k == 'lit':
        if c != 'HplLiteral':
            return bad(f'expected literal {m[2]}, got {c}')
        kind, text = m[1], m[2]
        v = a.value
        if kind == 'bool':
            if v is not (text == 'True'):
                bad(f'expected boolean {text}, got {v!r}')
        elif kind in ('int', 'float'):
            if isinstance(v, bool) or not isinstance(v, (int, float)) or not _num_eq(num_value(text), v):
                bad(f'expected number {text}, got {v!r}')
            elif isinstance(v, float) != (kind == 'float'):
                # an integer numeral denotes an int and a numeral with '.', or an exponent a float (2 is not 2.0: they print differently)
                bad(f'expected the {kind} {text}, got the {type(v).__name__} {v!r}')
        else:
            # the stored value must be the lexeme or its unquoted / unescaped content
            if not isinstance(v, str) or v not in (text, text[1:-1], unquote(text)):
                bad(f'expected string {text}, got {v!r}')
        return
    if k == 'const':
        if c != 'HplLiteral' or isinstance(a.value, (bool, str)) or not _num_eq(CONSTS[m[1]], a.value):
            bad(f'expected constant {m[1]}, got {a!r}'[:200])
        return
    if k == 'this':
        if c != 'HplThisMessage':
            bad(f'expected the current message, got {c}')
        return
    if k == 'var':
        if c != 'HplVarReference' or a.token != '@' + m[1]:
            bad(f'expected @{m[1]}, got {c} {getattr(a, "token", "")}')
        return
    if k == 'field':
        if c != 'HplFieldAccess':
            return bad(f'expected field access .{m[2]}, got {c}')
        if a.field != m[2]:
            bad(f'expected field {m[2]!r}, got {a.field!r}')
        return match_expr(m[1], a.message, path + '.message', diffs)
    if k == 'index':
        if c != 'HplArrayAccess':
            return bad(f'expected index access, got {c}')
        match_expr(m[1], a.array, path + '.array', diffs)
        return match_expr(m[2], a.index, path + '.index', diffs)
    if k == 'set':
        if c != 'HplSet':
            return bad(f'expected set, got {c}')
        if len(a.values) != len(m[1]):
            return bad(f'expected {len(m[1])} set elements, got {len(a.values)}')
        for i, (mv, av) in enumerate(zip(m[1], a.values)):
            match_expr(mv, av, f'{path}.values[{i}]', diffs)
        return
    if k == 'range':
        if c != 'HplRange':
            return bad(f'expected range, got {c}')
        if bool(a.exclude_min) != bool(m[3]) or bool(a.exclude_max) != bool(m[4]):
            bad(f'range exclusivity: expected ({m[3]}, {m[4]}), got ({a.exclude_min}, {a.exclude_max})')
        match_expr(m[1], a.min_value, path + '.min', diffs)
        return match_expr(m[2], a.max_value, path + '.max', diffs)
    if k == 'un':
        if c != 'HplUnaryOperator':
            return bad(f'expected unary {m[1]}, got {c}')
        if a.operator.token != m[1]:
            bad(f'expected unary operator {m[1]}, got {a.operator.token}')
        return match_expr(m[2], a.operand, path + '.operand', diffs)
    if k == 'bin':
        if c != 'HplBinaryOperator':
            return bad(f'expected binary {m[1]}, got {c}')
        if a.operator.token != m[1]:
            bad(f'expected operator {m[1]}, got {a.operator.token}')
        match_expr(m[2], a.operand1, path + '.lhs', diffs)
        return match_expr(m[3], a.operand2, path + '.rhs', diffs)
    if k == 'q':
        if c != 'HplQuantifier':
            return bad(f'expected quantifier {m[1]}, got {c}')
        if a.quantifier.value != m[1]:
            bad(f'expected {m[1]}, got {a.quantifier.value}')
        if a.variable != m[2]:
            bad(f'expected bound variable {m[2]}, got {a.variable}')
        match_expr(m[3], a.domain, path + '.domain', diffs)
        return match_expr(m[4], a.condition, path + '.body', diffs)
    if k == 'call':
        if c != 'HplFunctionCall':
            return bad(f'expected call {m[1]}(), got {c}')
        if a.function.name != m[1]:
            bad(f'expected function {m[1]}, got {a.function.name}')
        if len(a.arguments) != 1:
            return bad(f'expected 1 argument, got {len(a.arguments)}')
        return match_expr(m[2], a.arguments[0], path + '.arg', diffs)
    raise ValueError(f'not an expression model: {m!r}')


def match_predicate(mp, a, path, diffs, alias=None):
    """mp: model condition or None (absent predicate); a: library predicate."""
    c = astx.cname(a)
    if mp is None or mp == mast.TRUE:
        if c != 'HplVacuousTruth':
            diffs.append(f'{path}: expected the vacuous truth, got {c}')
        return
    if mp == mast.FALSE:
        if c != 'HplContradiction':
            diffs.append(f'{path}: expected the contradiction, got {c}')
        return
    if c != 'HplPredicateExpression':
        diffs.append(f'{path}: expected a predicate expression, got {c}')
        return
    if alias is not None:
        mp = mast.replace_var_base(mp, alias)
    match_expr(mp, a.expression, path + '.expr', diffs)


def match_event(me, a, path, diffs):
    if me[0] == 'disj':
        if astx.cname(a) != 'HplEventDisjunction':
            diffs.append(f'{path}: expected an event disjunction, got {astx.cname(a)}')
            return
        flat = astx.flat_events(a)
        want = mast.simple_events(me)
        if len(flat) != len(want):
            diffs.append(f'{path}: expected {len(want)} alternatives, got {len(flat)}')
            return
        for i, (mm, aa) in enumerate(zip(want, flat)):
            match_event(mm, aa, f'{path}[{i}]', diffs)
        return
    if astx.cname(a) != 'HplSimpleEvent':
        diffs.append(f'{path}: expected a simple event, got {astx.cname(a)}')
        return
    _, topic, alias, pred = me
    if a.name != topic:
        diffs.append(f'{path}: expected topic {topic!r}, got {a.name!r}')
    if a.alias != alias:
        diffs.append(f'{path}: expected alias {alias!r}, got {a.alias!r}')
    if not a.is_publish:
        diffs.append(f'{path}: expected a publish event')
    match_predicate(pred, a.predicate, path + '.pred', diffs, alias=alias)


def expected_max_time(bound):
    if bound is None:
        return math.inf
    v = float(bound[0])
    return v / 1000.0 if bound[1] == 'ms' else v


def match_property(mp, a, path, diffs):
    if astx.cname(a) != 'HplProperty':
        diffs.append(f'{path}: expected a property, got {astx.cname(a)}')
        return
    _, meta, sc, pt = mp
    s = a.scope
    if s.scope_type.name != SCOPE_NAMES[sc[1]]:
        diffs.append(f'{path}: expected scope {sc[1]}, got {s.scope_type.name}')
    for role, me, ae in (('activator', sc[2], s.activator), ('terminator', sc[3], s.terminator)):
        if (me is None) != (ae is None):
            diffs.append(f'{path}.{role}: presence differs (expected {"none" if me is None else "an event"})')
        elif me is not None:
            match_event(me, ae, f'{path}.{role}', diffs)
    p = a.pattern
    if p.pattern_type.name != PATTERN_NAMES[pt[1]]:
        diffs.append(f'{path}: expected pattern {pt[1]}, got {p.pattern_type.name}')
    if (pt[2] is None) != (p.trigger is None):
        diffs.append(f'{path}.trigger: presence differs')
    elif pt[2] is not None:
        match_event(pt[2], p.trigger, f'{path}.trigger', diffs)
    match_event(pt[3], p.behaviour, f'{path}.behaviour', diffs)
    if p.min_time != 0:
        diffs.append(f'{path}: expected min_time 0, got {p.min_time!r}')
    want = expected_max_time(pt[4])
    got = p.max_time
    ok = (want == got) or (not math.isinf(want) and not math.isinf(got) and abs(want - got) <= 1e-12 * max(abs(want), abs(got)))
    if not ok:
        diffs.append(f'{path}: expected max_time {want!r} from bound {pt[4]}, got {got!r}')
    want_meta = {k: v for k, v in meta}
    got_meta = dict(a.metadata)
    if set(want_meta) != set(got_meta):
        diffs.append(f'{path}: expected metadata keys {sorted(want_meta)}, got {sorted(got_meta)}')
    else:
        for k, v in want_meta.items():
            g = got_meta[k]
            if g not in (v, v[1:-1] if v.startswith('"') else v, unquote(v) if v.startswith('"') else v):
                diffs.append(f'{path}: metadata {k}: expected {v!r}, got {g!r}')


def match(m, a):
    """Differences between model tree m and library AST a ([] when they agree)."""
    diffs = []
    k = m[0]
    if k == 'spec':
        if astx.cname(a) != 'HplSpecification':
            return [f'expected a specification, got {astx.cname(a)}']
        if len(a.properties) != len(m[1]):
            return [f'expected {len(m[1])} properties, got {len(a.properties)}']
        for i, (mp, ap) in enumerate(zip(m[1], a.properties)):
            match_property(mp, ap, f'properties[{i}]', diffs)
    elif k == 'prop':
        match_property(m, a, 'property', diffs)
    elif k == 'pred':
        match_predicate(m[1], a, 'predicate', diffs)
    elif k in ('ev', 'disj'):
        match_event(m, a, 'event', diffs)
    else:
        match_expr(m, a, 'expr', diffs)
    return diffs
