# Shared runner machinery: bootstrap, seeds, case accounting, violations,
# known findings, replay files, evidence, sharded execution.

import hashlib
import json
import os
import sys
import time
import traceback
from collections import Counter

VERIF_DIR = os.path.dirname(os.path.dirname(os.path.abspath(__file__)))
REPO_DIR = os.environ.get('HPL_REPO_DIR', '/repo')
_SCRATCH = os.path.realpath(REPO_DIR) != '/repo'  # a run against a scratch copy (seeded change, old tree) is not evidence
EVIDENCE_DIR = os.environ.get('VERIF_EVIDENCE_DIR') or (os.path.join('/tmp', 'hplverif-scratch', 'evidence') if _SCRATCH else os.path.join(VERIF_DIR, 'evidence'))
REPLAY_DIR = os.environ.get('VERIF_REPLAY_DIR') or (os.path.join('/tmp', 'hplverif-scratch', 'replays') if _SCRATCH else os.path.join(VERIF_DIR, 'replays'))
REGRESSION_DIR = os.path.join(VERIF_DIR, 'regressions')
KNOWN_FINDINGS = os.path.join(VERIF_DIR, 'known_findings.json')
GUARD = 'HPL_SPECS_VERIF'

EXIT_OK = 0
EXIT_VIOLATION = 1
EXIT_HARNESS = 2


class HarnessError(Exception):
    """Environment / oracle / generator problem: never reported as VIOLATION."""


class Violation(Exception):
    """A generated case on which the property does not hold.

    sub:     name of the sub-check (a function of the check module, used for replay)
    sig:     root-cause signature (cases with the same signature are one finding)
    input:   JSON-serialisable concrete input for the sub-check
    message: expected vs. observed
    """

    def __init__(self, sub, sig, input, message):
        super().__init__(f'{sub}: {sig}: {message}')
        self.sub = sub
        self.sig = sig
        self.input = input
        self.message = message


def bootstrap(module):
    """Pin hashing, put the working tree of /repo first on sys.path, verify it."""
    if os.environ.get('PYTHONHASHSEED') != '0':
        os.environ['PYTHONHASHSEED'] = '0'
        os.execv(sys.executable, [sys.executable, '-m', module] + sys.argv[1:])
    os.environ[GUARD] = '1'
    src = os.path.join(REPO_DIR, 'src')
    if src not in sys.path:
        sys.path.insert(0, src)
    deps = os.path.join(VERIF_DIR, '.deps')
    if os.path.isdir(deps) and deps not in sys.path:
        sys.path.append(deps)
    sys.setrecursionlimit(max(sys.getrecursionlimit(), 3000))
    try:
        import hpl  # noqa
        import hypothesis  # noqa
    except Exception as e:  # pragma: no cover
        print(f'HARNESS-ERROR: cannot import hpl/hypothesis: {e!r}')
        sys.exit(EXIT_HARNESS)
    where = os.path.realpath(os.path.dirname(hpl.__file__))
    if not where.startswith(os.path.realpath(src)):
        print(f'HARNESS-ERROR: hpl imported from {where}, not from {src}')
        sys.exit(EXIT_HARNESS)
    try:
        import hypothesis.internal.conjecture.engine as eng

        eng.MAX_SHRINKING_SECONDS = int(os.environ.get('VERIF_SHRINK_S', '45'))
    except Exception:
        pass


def env_seed():
    try:
        return int(os.environ.get('VERIF_SEED', '1'))
    except ValueError:
        return 1


def derive_seed(seed, *parts):
    h = hashlib.sha256(repr((seed,) + parts).encode()).digest()
    return int.from_bytes(h[:6], 'big')


def h64(x):
    if not isinstance(x, (bytes, str)):
        x = repr(x)
    if isinstance(x, str):
        x = x.encode('utf-8', 'surrogatepass')
    return int.from_bytes(hashlib.blake2b(x, digest_size=8).digest(), 'big')


def jsonable(x):
    if isinstance(x, (str, int, bool)) or x is None:
        return x
    if isinstance(x, float):
        return x if x == x and abs(x) != float('inf') else repr(x)
    if isinstance(x, (list, tuple)):
        return [jsonable(v) for v in x]
    if isinstance(x, (set, frozenset)):
        return sorted((jsonable(v) for v in x), key=repr)
    if isinstance(x, dict):
        return {str(k): jsonable(v) for k, v in x.items()}
    return repr(x)


def detuple(x):
    """Inverse of JSON's list-ification for model trees (lists -> tuples)."""
    if isinstance(x, list):
        return tuple(detuple(v) for v in x)
    if isinstance(x, dict):
        return {k: detuple(v) for k, v in x.items()}
    return x


###############################################################################
# Known findings
###############################################################################


def load_known_findings():
    if not os.path.exists(KNOWN_FINDINGS):
        return {'known': [], 'fixed': []}
    with open(KNOWN_FINDINGS) as f:
        return json.load(f)


###############################################################################
# Context: counters for one check run (mergeable across shards)
###############################################################################

MAX_SAMPLES_PER_CLASS = 2
MAX_SAMPLES = 12


class Ctx:
    def __init__(self, pid, tier, seed, shard=0):
        self.pid = pid
        self.tier = tier
        self.seed = seed
        self.shard = shard
        self.evaluations = 0
        self.nontrivial = set()
        self.counts = Counter()
        self.samples = {}
        self.violations = []  # dicts
        self.known_hits = Counter()
        self.known_examples = {}
        self.notes = []
        self.exhaustive = {}
        self.t0 = time.time()
        self._known = [k for k in load_known_findings().get('known', []) if k['property'] == pid]
        self._matchers = None
        self.excluded_sigs = set()

    # -- accounting ---------------------------------------------------------
    def case(self, key, nontrivial, klass=None, sample=None):
        """Record one generated case. key identifies it (distinctness)."""
        self.evaluations += 1
        if nontrivial:
            self.nontrivial.add(h64(key))
        if klass is not None:
            self.counts['class:' + klass] += 1
        if sample is not None:
            k = klass or '_'
            lst = self.samples.setdefault(k, [])
            if len(lst) < MAX_SAMPLES_PER_CLASS:
                lst.append(jsonable(sample))

    def count(self, key, n=1):
        self.counts[key] += n

    def timed(self, name):
        ctx = self

        class _T:
            def __enter__(self):
                self.t = time.time()

            def __exit__(self, *a):
                ctx.counts['time_s:' + name] += round(time.time() - self.t, 2)

        return _T()

    def note(self, text):
        if text not in self.notes:
            self.notes.append(text)

    # -- violations ---------------------------------------------------------
    def matchers(self):
        if self._matchers is None:
            from hplverif import findings

            self._matchers = {}
            for k in self._known:
                fn = getattr(findings, k['matcher'], None)
                if fn is None:
                    raise HarnessError(f"known finding {k['id']}: no matcher {k['matcher']}")
                self._matchers[k['id']] = (fn, k)
        return self._matchers

    def is_known(self, v):
        for fid, (fn, k) in self.matchers().items():
            try:
                hit = fn(v)
            except Exception as e:
                raise HarnessError(f'matcher {fid} crashed: {e!r}')
            if hit:
                self.known_hits[fid] += 1
                self.known_examples.setdefault(fid, jsonable(v.input))
                return True
        return False

    def suppressed(self, v):
        """True when v is a listed known finding or already reported this run."""
        if v.sig in self.excluded_sigs:
            self.counts['excluded:' + v.sig[:80]] += 1
            return True
        return self.is_known(v)

    def report(self, v):
        """Record a violation (unless suppressed). Returns True when recorded."""
        if self.suppressed(v):
            return False
        self.excluded_sigs.add(v.sig)
        self.violations.append(
            {'sub': v.sub, 'sig': v.sig, 'input': jsonable(v.input), 'message': v.message}
        )
        return True

    # -- merge --------------------------------------------------------------
    def export(self):
        return {
            'evaluations': self.evaluations,
            'nontrivial': self.nontrivial,
            'counts': dict(self.counts),
            'samples': self.samples,
            'violations': self.violations,
            'known_hits': dict(self.known_hits),
            'known_examples': self.known_examples,
            'notes': self.notes,
            'exhaustive': self.exhaustive,
        }

    def merge(self, d):
        self.evaluations += d['evaluations']
        self.nontrivial |= d['nontrivial']
        self.counts.update(d['counts'])
        for k, lst in d['samples'].items():
            mine = self.samples.setdefault(k, [])
            for s in lst:
                if len(mine) < MAX_SAMPLES_PER_CLASS:
                    mine.append(s)
        seen = {v['sig'] for v in self.violations}
        for v in d['violations']:
            if v['sig'] not in seen:
                seen.add(v['sig'])
                self.violations.append(v)
        self.known_hits.update(d['known_hits'])
        for k, ex in d['known_examples'].items():
            self.known_examples.setdefault(k, ex)
        for n in d['notes']:
            self.note(n)
        for k, val in d['exhaustive'].items():
            self.exhaustive[k] = self.exhaustive.get(k, True) and val


###############################################################################
# Hypothesis driver: collect-then-shrink
###############################################################################


def run_hypothesis(ctx, name, strategy, body, max_examples, max_rounds=None, stateful=False):
    """Run body(value) over strategy. body raises Violation on failure.

    A failing case whose signature is a listed known finding, or was already
    found in this run, is counted and skipped, so the search continues behind
    it. The first case with a new signature fails the Hypothesis test, is shrunk
    by Hypothesis, recorded with a replay input, and the search restarts.
    """
    from hypothesis import HealthCheck, Phase, given, seed, settings

    if max_rounds is None:
        max_rounds = 4 if ctx.tier == 'quick' else 8
    phases = [Phase.explicit, Phase.generate, Phase.shrink]
    for rnd in range(max_rounds):
        last = {}

        def wrapped(value):
            try:
                body(value)
            except Violation as v:
                if ctx.suppressed(v):
                    return
                last['v'] = v
                raise

        test = given(strategy)(wrapped)
        test = settings(
            max_examples=max_examples,
            database=None,
            deadline=None,
            derandomize=False,
            report_multiple_bugs=False,
            suppress_health_check=list(HealthCheck),
            phases=phases,
            print_blob=False,
        )(test)
        test = seed(derive_seed(ctx.seed, ctx.pid, name, ctx.shard, rnd))(test)
        # counts made while a failing example is being shrunk are kept: they
        # are real evaluations of the oracle on generated inputs
        try:
            test()
        except Violation:
            v = last['v']
            ctx.report(v)
            ctx.count(f'rounds:{name}')
            continue
        except Exception as e:
            # Hypothesis could not reproduce a failure it had seen: the failure was observed against
            # the real code on a concrete input (kept in the replay file); state leaking between
            # calls inside the library is one way to get here
            if _is_flaky(e) and 'v' in last:
                v = last['v']
                v.message += '\n(not reproduced when Hypothesis replayed the case in the same process: the outcome depends on earlier calls)'
                ctx.report(v)
                ctx.count(f'flaky:{name}')
                continue
            raise
        return
    ctx.note(f'{name}: stopped after {max_rounds} collect-then-shrink rounds')


def _is_flaky(e):
    try:
        from hypothesis.errors import Flaky

        if isinstance(e, Flaky):
            return True
    except Exception:
        pass
    return any(_is_flaky(x) for x in getattr(e, 'exceptions', ()) or ())


class CallTimeout(Exception):
    """A call into the library did not return within CALL_LIMIT seconds (thousands of times the usual duration of a
    case): for the properties that promise a result - termination of the parsers, totality of the rewriting functions -
    that is a failure like any other exception; it also keeps a check from stalling on code that loops."""


CALL_LIMIT = float(os.environ.get('VERIF_CALL_LIMIT', '120'))
# After the first call that ran into the limit the process has a failure to report; the calls that follow (more cases of
# the same bucket, shrinking) get a fortieth of the limit, so that code which loops costs minutes, not hours.
_timer = {'armed': False, 'limit': CALL_LIMIT}


def _on_alarm(signum, frame):
    limit = _timer['limit']
    _timer['limit'] = min(limit, max(CALL_LIMIT / 40, 1))
    raise CallTimeout(f'no result within {limit:g} s')


def arm_call_limit():
    """Start the per-call limit (main thread only, not nested). Returns whether this call armed it."""
    import signal
    import threading

    if _timer['armed'] or CALL_LIMIT <= 0 or threading.current_thread() is not threading.main_thread():
        return False
    signal.signal(signal.SIGALRM, _on_alarm)
    signal.setitimer(signal.ITIMER_REAL, _timer['limit'])
    _timer['armed'] = True
    return True


def disarm_call_limit(armed):
    if armed:
        import signal

        signal.setitimer(signal.ITIMER_REAL, 0)
        _timer['armed'] = False


def guarded(fn, *args, **kwargs):
    """Call library code; return ('ok', value) or ('exc', exception)."""
    armed = arm_call_limit()
    try:
        return ('ok', fn(*args, **kwargs))
    except RecursionError as e:
        return ('exc', e)
    except Exception as e:  # noqa
        return ('exc', e)
    finally:
        disarm_call_limit(armed)


def innermost_hpl_frame(exc):
    tb = traceback.extract_tb(exc.__traceback__)
    where = None
    for fr in tb:
        if '/hpl/' in fr.filename.replace('\\', '/'):
            where = f'{os.path.basename(fr.filename)}:{fr.name}'
    return where or 'outside-hpl'


def outermost_hpl_frame(exc):
    for fr in traceback.extract_tb(exc.__traceback__):
        if '/hpl/' in fr.filename.replace('\\', '/'):
            return f'{os.path.basename(fr.filename)}:{fr.name}'
    return 'outside-hpl'


def exc_sig(exc):
    if isinstance(exc, CallTimeout):
        # the alarm interrupts a loop wherever it happens to be: the entry function names the bucket, not the innermost frame
        return f'CallTimeout@{outermost_hpl_frame(exc)}'
    return f'{type(exc).__name__}@{innermost_hpl_frame(exc)}'


###############################################################################
# Sharded execution
###############################################################################


def _shard_entry(args):
    modname, fname, pid, tier, seed, shard, nshards, extra = args
    import importlib

    mod = importlib.import_module(modname)
    ctx = Ctx(pid, tier, seed, shard)
    if os.environ.get('VERIF_WATCHDOG'):
        # diagnosis only: dump the Python stack of this shard every N seconds (a case that never returns shows up here).
        # Not for unattended runs: a dump taken while lark's generated code was on the stack crashed one worker process.
        import faulthandler

        faulthandler.dump_traceback_later(int(os.environ['VERIF_WATCHDOG']), repeat=True, file=open(f'/tmp/hplverif-watchdog-{pid}-{shard}.txt', 'w'))
    try:
        getattr(mod, fname)(ctx, shard, nshards, *extra)
    except HarnessError as e:
        return {'harness_error': f'{e}'}
    except Exception:
        return {'harness_error': traceback.format_exc()}
    return ctx.export()


def run_sharded(ctx, modname, fname, nshards, extra=()):
    """Run mod.fname(ctx_i, shard, nshards, *extra) in nshards processes; merge."""
    args = [(modname, fname, ctx.pid, ctx.tier, ctx.seed, i, nshards, tuple(extra)) for i in range(nshards)]
    if nshards == 1:
        results = [_shard_entry(args[0])]
    else:
        import multiprocessing as mp
        from concurrent.futures import ProcessPoolExecutor
        from concurrent.futures.process import BrokenProcessPool

        # (an executor, not multiprocessing.Pool: if a worker process dies, the run ends as a harness error instead of
        # waiting for its result forever)
        try:
            with ProcessPoolExecutor(max_workers=min(nshards, os.cpu_count() or 1), mp_context=mp.get_context('fork')) as pool:
                results = list(pool.map(_shard_entry, args, chunksize=1))
        except BrokenProcessPool as e:
            raise HarnessError(f'a shard process of {modname}.{fname} died ({e})')
    for r in results:
        if 'harness_error' in r:
            raise HarnessError(r['harness_error'])
        ctx.merge(r)


###############################################################################
# Finish: replay files, evidence, exit code
###############################################################################


def write_replay(pid, v):
    os.makedirs(REPLAY_DIR, exist_ok=True)
    hh = hashlib.sha256(v['sig'].encode()).hexdigest()[:10]
    path = os.path.join(REPLAY_DIR, f'{pid}-{hh}.json')
    with open(path, 'w') as f:
        json.dump({'property': pid, **v}, f, indent=1, sort_keys=True)
    return path


def finish(ctx, rule, level='exploration', assumptions=(), extra=None):
    os.makedirs(EVIDENCE_DIR, exist_ok=True)
    known = {k['id']: k for k in ctx._known}
    for fid, n in sorted(ctx.known_hits.items()):
        print(f"KNOWN-FINDING: property={ctx.pid} {fid}: {known[fid]['what']} ({n} cases this run)")
    paths = []
    for v in ctx.violations:
        p = write_replay(ctx.pid, v)
        paths.append(p)
        print(f'VIOLATION property={ctx.pid} replay={p}')
        print(f"  sub-check: {v['sub']}\n  signature: {v['sig']}\n  {v['message'][:1500]}")
    samples = []
    for k in sorted(ctx.samples):
        for s in ctx.samples[k]:
            if len(samples) < MAX_SAMPLES:
                samples.append({'class': k, 'case': s})
    classes = {k[6:]: n for k, n in sorted(ctx.counts.items()) if k.startswith('class:')}
    other = {k: n for k, n in sorted(ctx.counts.items()) if not k.startswith('class:')}
    cov = {
        'evaluations': int(ctx.evaluations),
        'distinct_nontrivial': len(ctx.nontrivial),
        'rule': rule,
        'samples': samples,
        'classes': classes,
        'counters': other,
        'known_findings_hit': dict(ctx.known_hits),
        'notes': ctx.notes,
    }
    if ctx.exhaustive:
        cov['exhaustive'] = all(ctx.exhaustive.values())
        cov['exhaustive_parts'] = ctx.exhaustive
    if extra:
        cov.update(extra)
    ev = {
        'property_id': ctx.pid,
        'tier': ctx.tier,
        'seed': int(ctx.seed),
        'level': level,
        'coverage': cov,
        'assumptions': list(assumptions),
        'wall_s': round(time.time() - ctx.t0, 2),
        'violations': len(ctx.violations),
    }
    with open(os.path.join(EVIDENCE_DIR, f'{ctx.pid}.json'), 'w') as f:
        json.dump(ev, f, indent=1, sort_keys=True)
    print(
        f'{ctx.pid} [{ctx.tier}, seed {ctx.seed}]: {ctx.evaluations} cases, '
        f'{cov["distinct_nontrivial"]} distinct non-trivial, {len(ctx.violations)} violation(s), '
        f'{sum(ctx.known_hits.values())} known-finding case(s), {ev["wall_s"]} s'
    )
    return EXIT_VIOLATION if ctx.violations else EXIT_OK
